"""Models of CPython built-ins and of the external library surface (trusted contracts).

Every entry here is an *assumption* about code outside /repo; each use is recorded in
`engine.trusted_used` and ends up in the evidence file.  Validation of these models against the
real CPython / torch lives in harness/validate_trusted.py.
"""
from __future__ import annotations

import ast

import z3

from . import values as Vm
from .values import (V, KInt, KReal, KBool, KStr, KDyn, KNone, KFn, KSetInt, KRef, KList, KTuple,
                     KDict, IntV, RealV, BoolV, StrV, NONE, DynV, TupV, Unsupported, SpecError, DynS,
                     fresh, fresh_name, merge, coerce, to_dyn, tuple_items, DictOps, ListOps)
from .contracts import FIELDS, LIB_CLASSES

TABLE: dict[str, object] = {}        # dotted name -> fn(engine, st, args, kwargs) -> V
METHODS: dict[tuple, object] = {}    # (kind tag or lib class, method) -> fn(engine, st, recv, args, kwargs)
PURE_NAMES = {'len', 'max', 'min', 'int', 'float', 'abs', 'callable', 'isinstance', 'cast', 'sum',
              'range', 'list', 'tuple', 'set', 'frozenset', 'sorted', 'reversed', 'zip', 'hasattr',
              'sqrt', 'index', 'count', 'keys', 'values', 'items', 'lower', 'upper', 'log', 'warn',
              'info', 'print', 'type', 'str', 'repr', 'format', 'all', 'any', 'round', 'bool',
              'size', 'nelement', 'element_size', 'dim', 'is_initialized', 'time'}


def builtin(*names):
    def deco(fn):
        for n in names:
            TABLE[n] = fn
        return fn
    return deco


def method(tag, *names):
    def deco(fn):
        for n in names:
            METHODS[(tag, n)] = fn
        return fn
    return deco


def _mk(engine_mod):
    from .symex import Builtin, meta_value
    return Builtin, meta_value


def lookup(dotted):
    from .symex import Builtin, meta_value
    if dotted in TABLE:
        if isinstance(TABLE[dotted], V):
            return TABLE[dotted]
        return meta_value(Builtin(dotted, _wrap(dotted, TABLE[dotted])))
    if dotted in MODULE_NAMES:
        from .symex import ModuleRef
        return meta_value(ModuleRef(dotted))
    if dotted in LIB_CLASSES or (dotted.split('.')[-1] in LIB_CLASS_ALIASES and dotted.startswith('torch')):
        from .symex import ClassRef
        return meta_value(ClassRef(LIB_CLASS_ALIASES.get(dotted.split('.')[-1], dotted), lib=True))
    return None


MODULE_NAMES = {'torch', 'torch.distributed', 'math', 'time', 'warnings', 'logging', 're', 'os',
                'os.path', 'torch.nn', 'torch.nn.functional', 'torch.linalg', 'torch.futures',
                'torch._utils', 'torch.cuda', 'torch.cuda.amp', 'typing', 'collections', 'torch._C'}
LIB_CLASS_ALIASES = {}


def _wrap(name, fn):
    def call(eng, st, args, kwargs):
        eng.trusted_used.add(name)
        return fn(eng, st, args, kwargs)
    return call


def lookup_method(eng, st, recv: V, attr):
    from .symex import Builtin, meta_value
    k = recv.kind
    tags = []
    if isinstance(k, KList):
        tags.append('list')
    elif isinstance(k, KDict):
        tags.append('dict')
    elif isinstance(k, KTuple):
        tags.append('tuple')
    elif k == KStr:
        tags.append('str')
    elif k == KSetInt:
        tags.append('setint')
    elif isinstance(k, KRef) and k.cls:
        tags += eng.class_mro(k.cls)
    elif isinstance(k, KRef) and k.cls is None:
        # statically unknown class (Tensor | Future | None fields): a method name that exists on exactly
        # one modelled library class is dispatched there, with the dynamic class as an obligation
        cands = sorted({t for (t, a) in METHODS if a == attr and t in LIB_CLASSES})
        roots = [c for c in cands if not any(c != d and eng.is_subclass(c, d) for d in cands)]
        if len(roots) == 1:
            eng.require(st, eng.isinstance_term(st, recv, roots[0]), 'AttributeError',
                        f'.{attr} needs a {roots[0]}')
            recv = V(KRef(roots[0]), recv.term)
            tags += eng.class_mro(roots[0])
    elif k == KDyn:
        tags.append('dyn')
    if recv.meta is not None and hasattr(recv.meta, 'tag'):
        tags.insert(0, recv.meta.tag)
    for t in tags:
        if (t, attr) in METHODS:
            fn = METHODS[(t, attr)]
            name = f'{t}.{attr}'

            def call(eng_, st_, args, kwargs, fn=fn, name=name):
                eng_.trusted_used.add(name)
                return fn(eng_, st_, recv, args, kwargs)
            return meta_value(Builtin(name, call))
    return None


# --------------------------------------------------------------------------- hooks used by symex
def binop(eng, st, op, a, b):
    for x in (a, b):
        if x.meta is not None and hasattr(x.meta, 'binop'):
            return x.meta.binop(eng, st, op, a, b)
    return None


def compare(eng, st, op, a, b):
    for x in (a, b):
        if x.meta is not None and hasattr(x.meta, 'compare'):
            return x.meta.compare(eng, st, op, a, b)
    return None


def contains(eng, st, cont, x):
    if cont.meta is not None and hasattr(cont.meta, 'contains'):
        return cont.meta.contains(eng, st, x)
    return None


def getitem(eng, st, base, k):
    if base.meta is not None and hasattr(base.meta, 'getitem'):
        return base.meta.getitem(eng, st, k)
    return None


def slice(eng, st, base, lo, hi):
    return None


def construct(eng, st, cname, args, kwargs):
    if ('new', cname) in METHODS:
        eng.trusted_used.add(f'{cname}()')
        return METHODS[('new', cname)](eng, st, None, args, kwargs)
    return None


def dict_equal(eng, st, a, b):
    ops = DictOps(a.kind)
    da, db = a.term, b.term
    i = z3.Int(fresh_name('i'))
    rng = z3.And(i >= 0, i < ops.n(da))
    ka = z3.Select(ops.keys(da), i)
    return z3.And(
        ops.n(da) == ops.n(db),
        Vm.forall([i], z3.Implies(rng, z3.And(
            z3.Select(ops.keys(db), i) == ka,
            z3.Select(ops.vals(da), ka) == z3.Select(ops.vals(db), ka))),
            patterns=[z3.Select(ops.keys(da), i)]))


# --------------------------------------------------------------------------- quantifiers / comprehensions
class RangeV:
    """range(a, b, s) as a value (s > 0 assumed/required)."""
    tag = 'range'

    def __init__(self, a, b, s):
        self.a, self.b, self.s = a, b, s

    def iter_sequence(self, eng, st):
        a, b, s = self.a, self.b, self.s
        if z3.is_int_value(s) and s.as_long() == 1:
            n = z3.If(b > a, b - a, 0)
        else:
            n = z3.If(b > a, (b - a + s - 1) / s, 0)
        def at(i):
            if z3.is_int_value(s) and s.as_long() == 1:
                if z3.is_int_value(a) and a.as_long() == 0:
                    return IntV(i)
                return IntV(a + i)
            return IntV(a + i * s)
        return n, at

    def contains(self, eng, st, x):
        r = eng.as_int(x, st)
        if z3.is_int_value(self.s) and self.s.as_long() == 1:
            return z3.And(self.a <= r, r < self.b)
        k = eng.fresh_term(z3.IntSort(), 'w')
        return z3.Exists([k], z3.And(k >= 0, r == self.a + k * self.s, r < self.b))

    def as_set(self, eng, st):
        """frozenset(range(a, b, s)): the canonical term rangeset(a, b, s)."""
        rs = eng.rangeset()
        return V(KSetInt, rs(self.a, self.b, self.s), meta=SetMeta(rng=self))


class SetMeta:
    tag = 'setint'

    def __init__(self, rng=None):
        self.rng = rng


def range_value(r: RangeV):
    return V(KFn, z3.IntVal(0), meta=r)


def _gen_domain(eng, st, gen: ast.comprehension):
    """Return (bound z3 vars, range condition, env update) for one `for x in it` clause."""
    it = eng.eval(gen.iter, st)
    env = {}
    if it.kind == KSetInt:
        r = z3.Int(fresh_name('q'))
        _assign_target(eng, st, gen.target, IntV(r), env)
        return [r], z3.Select(it.term, r), env
    if isinstance(it.meta, RangeV) and z3.is_int_value(it.meta.s) and it.meta.s.as_long() == 1:
        # quantify over the element itself (clean trigger), not over an offset from the start
        r = z3.Int(fresh_name('q'))
        _assign_target(eng, st, gen.target, IntV(r), env)
        return [r], z3.And(r >= it.meta.a, r < it.meta.b), env
    n, at = eng.iter_sequence(it, st)
    j = z3.Int(fresh_name('q'))
    _assign_target(eng, st, gen.target, at(j), env)
    return [j], z3.And(j >= 0, j < n), env


def _assign_target(eng, st, target, v, env):
    if isinstance(target, ast.Name):
        env[target.id] = v
    elif isinstance(target, (ast.Tuple, ast.List)):
        items = eng.unpack(v, len(target.elts), st)
        for t, i in zip(target.elts, items):
            _assign_target(eng, st, t, i, env)
    else:
        raise Unsupported('comprehension target')


def quantifier(eng, st, g: ast.GeneratorExp, universal: bool):
    """all(body for x in dom if c) -> ForAll; any(...) -> Exists (spec mode and pure code)."""
    s = st.copy()
    bvars, conds = [], []
    npush = 0
    try:
        for gen in g.generators:
            bv, rc, env = _gen_domain(eng, s, gen)
            s.env = dict(s.env)
            s.env.update(env)
            bvars += bv
            conds.append(rc)
            eng.push_binder(bv, rc)
            npush += 1
            for c in gen.ifs:
                ct = eng.truthy(eng.eval(c, s))
                conds.append(ct)
                eng.push_binder([], ct)
                npush += 1
        body = eng.truthy(eng.eval(g.elt, s))
    finally:
        for _ in range(npush):
            eng.pop_binder()
    dom = z3.And(*conds) if len(conds) > 1 else conds[0]
    if universal:
        return BoolV(Vm.forall(bvars, z3.Implies(dom, body)))
    return BoolV(z3.Exists(bvars, z3.And(dom, body)))


def _mentions(f, v):
    stack, seen = [f], set()
    while stack:
        t = stack.pop()
        if t.get_id() in seen:
            continue
        seen.add(t.get_id())
        if z3.eq(t, v):
            return True
        stack.extend(t.children())
    return False


class FamilyV:
    """Set of frozensets built by a comprehension over range(n): indexed family i -> S_i.

    Iteration order of the resulting `set` is an unknown permutation (assumption S3): iteration
    goes through an uninterpreted bijection perm: [0,n) -> [0,n).
    """
    tag = 'family'

    def __init__(self, n, member):
        self.n = n
        self.member = member      # python fn: index term -> set term
        self.perm = None

    def iter_sequence(self, eng, st):
        if self.perm is None:
            self.perm = z3.Function(fresh_name('perm'), z3.IntSort(), z3.IntSort())
            self.inv = z3.Function(fresh_name('perminv'), z3.IntSort(), z3.IntSort())
            i = z3.Int(fresh_name('i'))
            eng.fact(None, Vm.forall([i], z3.Implies(z3.And(i >= 0, i < self.n), z3.And(
                self.perm(i) >= 0, self.perm(i) < self.n, self.inv(self.perm(i)) == i)),
                patterns=[self.perm(i)]))
            eng.fact(None, Vm.forall([i], z3.Implies(z3.And(i >= 0, i < self.n), z3.And(
                self.inv(i) >= 0, self.inv(i) < self.n, self.perm(self.inv(i)) == i)),
                patterns=[self.inv(i)]))
            eng.assumptions.add('S3: iteration order of a set is an arbitrary but fixed permutation')
        return self.n, (lambda i: V(KSetInt, self.member(self.perm(i))))


def comprehension(eng, st, e, kind):
    gens = e.generators
    if kind == 'set' and len(gens) == 1 and not gens[0].ifs:
        it = eng.eval(gens[0].iter, st)
        if isinstance(it.meta, RangeV) and isinstance(gens[0].target, ast.Name):
            rng = it.meta
            if not (z3.is_int_value(rng.a) and rng.a.as_long() == 0
                    and z3.is_int_value(rng.s) and rng.s.as_long() == 1):
                raise Unsupported('set comprehension over general range')
            n = z3.If(rng.b > 0, rng.b, 0)
            name = gens[0].target.id
            i = z3.Int(fresh_name('fi'))
            s2 = st.copy()
            s2.env = dict(st.env)
            s2.env[name] = IntV(i)
            eng.push_binder([i], z3.And(i >= 0, i < n))
            try:
                elt = eng.eval(e.elt, s2)
            finally:
                eng.pop_binder()
            if elt.kind != KSetInt:
                raise Unsupported('set comprehension element kind')

            def member(idx, _t=elt.term, _i=i):
                return z3.substitute(_t, (_i, idx))
            fam = FamilyV(n, member)
            return V(KFn, z3.IntVal(0), meta=fam)
    if kind in ('list', 'gen') and len(gens) == 1 and not gens[0].ifs:
        # map-style comprehension with a pure element expression: quantified definition
        it = eng.eval(gens[0].iter, st)
        n, at = eng.iter_sequence(it, st)
        cn = eng.concrete_int(n)
        if cn is not None and cn <= 8:
            items = []
            for j in range(cn):
                s2 = st.copy()
                s2.env = dict(st.env)
                env = {}
                _assign_target(eng, st, gens[0].target, at(z3.IntVal(j)), env)
                s2.env.update(env)
                items.append(eng.eval(e.elt, s2))
                st.heap, st.nxt, st.path, st.dead = s2.heap, s2.nxt, s2.path, s2.dead
            return eng.make_list(items)
        j = z3.Int(fresh_name('cj'))
        s2 = st.copy()
        s2.env = dict(st.env)
        env = {}
        _assign_target(eng, st, gens[0].target, at(j), env)
        s2.env.update(env)
        heap_before = dict(s2.heap)
        eng.push_binder([j], z3.And(j >= 0, j < n))
        try:
            elt = eng.eval(e.elt, s2)
        finally:
            eng.pop_binder()
        if any(not z3.eq(s2.heap[k], heap_before.get(k, s2.heap[k])) for k in s2.heap):
            raise Unsupported('comprehension element with side effects')
        res = eng.fresh(KList(elt.kind), 'comp')
        lo = ListOps(res.kind)
        eng.fact(st, lo.len(res.term) == z3.If(n > 0, n, 0))
        body_ = z3.Implies(z3.And(j >= 0, j < n, s2.path), lo.at(res.term, j) == elt.term)
        eng.fact(st, Vm.forall([j], body_, patterns=[lo.at(res.term, j)]))
        try:
            src = at(j)
            for p in _source_patterns(j, src.term):
                eng.fact(st, Vm.forall([j], body_, patterns=[p]))
        except Exception:      # noqa
            pass
        return res
    if (kind == 'dict' and len(gens) == 1 and not gens[0].ifs and isinstance(gens[0].target, ast.Name)
            and isinstance(e.key, ast.Name) and e.key.id == gens[0].target.id):
        # {k: f(k) for k in d}: same keys in the same order, values given by a pure expression of the key
        it = eng.eval(gens[0].iter, st)
        if isinstance(it.kind, KDict):
            dk = it.kind
            di = DictOps(dk)
            kc = eng.fresh(dk.key, 'ck')
            s2 = st.copy()
            s2.env = dict(st.env)
            s2.env[gens[0].target.id] = kc
            heap_before = dict(s2.heap)
            elt = eng.eval(e.value, s2)
            if any(not z3.eq(s2.heap[k], heap_before.get(k, s2.heap[k])) for k in s2.heap):
                raise Unsupported('comprehension element with side effects')
            rk = KDict(dk.key, elt.kind)
            ro = DictOps(rk)
            d = it.term
            kv = z3.Const(fresh_name('cq'), dk.key.sort())
            vals = z3.Const(fresh_name('cvals'), z3.ArraySort(dk.key.sort(), elt.kind.sort()))
            eng.fact(st, Vm.forall([kv], z3.Implies(di.contains(d, kv), z3.Select(vals, kv) == z3.substitute(elt.term, (kc.term, kv))),
                                   patterns=[z3.Select(vals, kv)]))
            return V(rk, ro.mk(di.n(d), di.keys(d), di.idx(d), vals))
    raise Unsupported(f'{kind} comprehension: {ast.unparse(e)}')


# --------------------------------------------------------------------------- CPython builtins
def _num_result(eng, st, is_int, iterm, rterm):
    if z3.is_true(z3.simplify(is_int)):
        return IntV(iterm)
    if z3.is_false(z3.simplify(is_int)) or iterm is None:
        return RealV(rterm)
    return DynV(z3.If(is_int, DynS.int(iterm), DynS.real(rterm)))


@builtin('max', 'min')
def _max(eng, st, args, kwargs, _name=[None]):
    raise Unsupported('dispatch')


def _minmax(is_max):
    def fn(eng, st, args, kwargs):
        if kwargs:
            raise Unsupported('min/max with key')
        if len(args) == 1:
            xs = args[0]
            if isinstance(xs.kind, KList) and xs.kind.elem in (KInt, KReal):
                # min(list): value m with m in xs and m <= all (first extremal element; value only)
                lo = ListOps(xs.kind)
                eng.require(st, lo.len(xs.term) > 0, 'ValueError', 'min/max of empty sequence')
                m = eng.fresh(xs.kind.elem, 'ext')
                w = eng.fresh_term(z3.IntSort(), 'w')
                j = z3.Int(fresh_name('j'))
                n = lo.len(xs.term)
                eng.fact(st, z3.And(w >= 0, w < n, lo.at(xs.term, w) == m.term))
                cmp_ = (lambda a, b: a >= b) if is_max else (lambda a, b: a <= b)
                eng.fact(st, Vm.forall([j], z3.Implies(z3.And(j >= 0, j < n), cmp_(m.term, lo.at(xs.term, j))),
                                       patterns=[lo.at(xs.term, j)]))
                return m
            raise Unsupported('min/max over iterable')
        # python: max(a, b) returns a unless b > a (first maximal); min(a, b) returns a unless b < a
        acc = args[0]
        for b in args[1:]:
            c = eng.compare('Gt' if is_max else 'Lt', b, acc, st)
            acc = merge(c, b, acc)
        return acc
    return fn


TABLE['max'] = _minmax(True)
TABLE['min'] = _minmax(False)


@builtin('int')
def _int(eng, st, args, kwargs):
    (x,) = args
    if x.kind == KInt:
        return x
    if x.kind == KBool:
        return IntV(z3.If(x.term, 1, 0))
    is_int, it, rt = eng.num_parts(x, st)
    # truncation toward zero (S5)
    tr = z3.If(rt >= 0, z3.ToInt(rt), -z3.ToInt(-rt))
    if it is None:
        return IntV(tr)
    return IntV(z3.If(is_int, it, tr))


@builtin('float')
def _float(eng, st, args, kwargs):
    (x,) = args
    _, _, rt = eng.num_parts(x, st)
    return RealV(rt)


@builtin('bool')
def _bool(eng, st, args, kwargs):
    return BoolV(eng.truthy(args[0]))


@builtin('abs')
def _abs(eng, st, args, kwargs):
    (x,) = args
    is_int, it, rt = eng.num_parts(x, st)
    return _num_result(eng, st, is_int, None if it is None else z3.If(it >= 0, it, -it),
                       z3.If(rt >= 0, rt, -rt))


@builtin('round')
def _round(eng, st, args, kwargs):
    (x,) = args
    is_int, it, rt = eng.num_parts(x, st)
    # round half to even (S5)
    fl = z3.ToInt(rt)
    frac = rt - z3.ToReal(fl)
    r = z3.If(frac < 0.5, fl, z3.If(frac > 0.5, fl + 1, z3.If(fl % 2 == 0, fl, fl + 1)))
    if it is None:
        return IntV(r)
    return IntV(z3.If(is_int, it, r))


@builtin('len')
def _len(eng, st, args, kwargs):
    (x,) = args
    k = x.kind
    if isinstance(k, KList):
        return IntV(ListOps(k).len(x.term))
    if isinstance(k, KDict):
        if x.meta == 'emptydict':
            return IntV(0)
        return IntV(DictOps(k).n(x.term))
    if isinstance(k, KTuple):
        return IntV(len(k.items))
    if x.meta is not None and hasattr(x.meta, 'length'):
        return IntV(x.meta.length(eng, st))
    if x.meta is not None and hasattr(x.meta, 'iter_sequence'):
        return IntV(x.meta.iter_sequence(eng, st)[0])
    if k == KSetInt:
        card = _card(eng)
        return IntV(card(x.term))
    raise Unsupported(f'len of {k!r}')


def _card(eng):
    if 'card' not in eng.uf_cache:
        eng.uf_cache['card'] = z3.Function('card', Vm.SetIntS, z3.IntSort())
    return eng.uf_cache['card']


@builtin('callable')
def _callable(eng, st, args, kwargs):
    (x,) = args
    if x.kind == KFn:
        return BoolV(True)
    if x.kind == KDyn:
        return BoolV(DynS.is_fn(x.term))
    if isinstance(x.kind, KRef):
        return BoolV(False)
    return BoolV(False)


@builtin('isinstance')
def _isinstance(eng, st, args, kwargs):
    from .symex import ClassRef, Builtin
    x, c = args
    names = []

    def collect(cv):
        if isinstance(cv.kind, KTuple):
            for it in tuple_items(cv):
                collect(it)
        elif isinstance(cv.meta, ClassRef):
            names.append(cv.meta.name)
        elif isinstance(cv.meta, Builtin):
            names.append(cv.meta.name)
        else:
            raise Unsupported('isinstance with non-class')
    collect(c)
    res = []
    for n in names:
        res.append(_isinstance1(eng, st, x, n))
    return BoolV(z3.Or(*res) if len(res) > 1 else res[0])


def _isinstance1(eng, st, x, n):
    k = x.kind
    prim = {'int': lambda t: z3.Or(DynS.is_int(t), DynS.is_bool(t)), 'float': DynS.is_real,
            'bool': DynS.is_bool, 'str': DynS.is_str}
    if n in prim:
        if k == KDyn:
            return prim[n](x.term)
        static = {'int': k in (KInt, KBool), 'float': k == KReal, 'bool': k == KBool, 'str': k == KStr}
        return z3.BoolVal(static[n])
    if n == 'NoneType' or n == 'type(None)':
        return eng.identical(x, NONE)
    if isinstance(k, KRef):
        if k.cls is not None and eng.is_subclass(k.cls, n):
            return x.term != 0
        return eng.isinstance_term(st, x, n)
    if k == KDyn:
        r = V(KRef(None), DynS.addr(x.term))
        return z3.And(DynS.is_ref(x.term), eng.isinstance_term(st, r, n))
    return z3.BoolVal(False)


@builtin('typing.cast', 'cast')
def _cast(eng, st, args, kwargs):
    return args[1]


@builtin('range')
def _range(eng, st, args, kwargs):
    ints = [eng.as_int(a, st) for a in args]
    if len(ints) == 1:
        a, b, s = z3.IntVal(0), ints[0], z3.IntVal(1)
    elif len(ints) == 2:
        a, b, s = ints[0], ints[1], z3.IntVal(1)
    else:
        a, b, s = ints
        eng.require(st, s > 0, 'ValueError', 'range step must be positive (negative steps unsupported)')
    return range_value(RangeV(a, b, s))


@builtin('frozenset', 'set')
def _set(eng, st, args, kwargs):
    if not args:
        return V(KSetInt, z3.EmptySet(z3.IntSort()))
    (x,) = args
    if isinstance(x.meta, RangeV):
        return x.meta.as_set(eng, st)
    if x.kind == KSetInt:
        return x
    if isinstance(x.kind, KList) and x.kind.elem == KInt:
        S = z3.Const(fresh_name('S'), Vm.SetIntS)
        r = z3.Int(fresh_name('r'))
        eng.fact(st, Vm.forall([r], z3.Select(S, r) == ListOps(x.kind).contains(x.term, r),
                               patterns=[z3.Select(S, r)]))
        return V(KSetInt, S)
    raise Unsupported(f'set() of {x.kind!r}')


@builtin('list', 'tuple')
def _list(eng, st, args, kwargs):
    if not args:
        return eng.make_list([])
    (x,) = args
    if isinstance(x.kind, (KList,)):
        return V(x.kind, x.term)
    if isinstance(x.kind, KTuple):
        return x
    if x.kind == KSetInt:
        # list(set): some enumeration of the elements (S3): fresh sequence, same membership, no dups
        s = eng.fresh(KList(KInt), 'enum')
        r = z3.Int(fresh_name('r'))
        i, j = z3.Int(fresh_name('i')), z3.Int(fresh_name('j'))
        pos = z3.Function(fresh_name('pos'), z3.IntSort(), z3.IntSort())
        lo = ListOps(s.kind)
        n = lo.len(s.term)
        eng.fact(st, n >= 0)
        eng.fact(st, Vm.forall([r], z3.Implies(z3.Select(x.term, r),
                                               z3.And(pos(r) >= 0, pos(r) < n, lo.at(s.term, pos(r)) == r)),
                               patterns=[z3.Select(x.term, r)]))
        eng.fact(st, Vm.forall([i], z3.Implies(z3.And(i >= 0, i < n),
                                               z3.And(z3.Select(x.term, lo.at(s.term, i)), pos(lo.at(s.term, i)) == i)),
                               patterns=[lo.at(s.term, i)]))
        eng.fact(st, n == _card(eng)(x.term))
        eng.assumptions.add('S3: iteration order of a set is an arbitrary but fixed permutation')
        return s
    if x.meta is not None and hasattr(x.meta, 'iter_sequence'):
        n, at = x.meta.iter_sequence(eng, st)
        first = at(z3.IntVal(0))
        s = eng.fresh(KList(first.kind), 'lst')
        j = z3.Int(fresh_name('j'))
        lo = ListOps(s.kind)
        eng.fact(st, lo.len(s.term) == n)
        eng.fact(st, Vm.forall([j], z3.Implies(z3.And(j >= 0, j < n), lo.at(s.term, j) == at(j).term),
                               patterns=[lo.at(s.term, j)]))
        return s
    raise Unsupported(f'list() of {x.kind!r}')


def fsum(eng, elem_kind):
    key = 'fsum_' + repr(elem_kind)
    if key not in eng.uf_cache:
        eng.uf_cache[key] = z3.Function(key, KList(elem_kind).sort(), elem_kind.sort())
    return eng.uf_cache[key]


def _source_patterns(j, term, limit=2):
    """Smallest sub-terms of `term` of the form f(.., j, ..) (select / accessor / function application with the bound
    variable as a direct argument): usable as E-matching triggers."""
    out, seen, stack = [], set(), [term]
    while stack:
        t = stack.pop()
        if t.get_id() in seen or not z3.is_app(t):
            continue
        seen.add(t.get_id())
        kids = t.children()
        if any(z3.eq(k, j) for k in kids) and t.decl().kind() in (z3.Z3_OP_SELECT, z3.Z3_OP_UNINTERPRETED, z3.Z3_OP_DT_ACCESSOR):
            out.append(t)
        stack.extend(kids)
    return out[:limit]


def as_list(eng, st, x):
    """List of the elements of an iterable value (dict view, zip, range, ...) in iteration order."""
    if isinstance(x.kind, KList):
        return x
    n, at = eng.iter_sequence(x, st)
    j = z3.Int(fresh_name('lj'))
    eng.push_binder([j], z3.And(j >= 0, j < n))
    try:
        elt = at(j)
    finally:
        eng.pop_binder()
    res = eng.fresh(KList(elt.kind), 'aslist')
    lo = ListOps(res.kind)
    eng.fact(st, lo.len(res.term) == z3.If(n > 0, n, 0))
    body = z3.Implies(z3.And(j >= 0, j < n), lo.at(res.term, j) == elt.term)
    eng.fact(st, Vm.forall([j], body, patterns=[lo.at(res.term, j)]))
    # the same fact, triggered by the source element (so that statements about the source reach the list)
    for p in _source_patterns(j, elt.term):
        eng.fact(st, Vm.forall([j], body, patterns=[p]))
    return res


@builtin('sum')
def _sum(eng, st, args, kwargs):
    (x,) = args
    if not isinstance(x.kind, KList) and x.meta is not None and hasattr(x.meta, 'iter_sequence'):
        x = as_list(eng, st, x)
    if isinstance(x.kind, KList) and x.kind.elem in (KInt, KReal):
        # left fold from 0 (S4) as an uninterpreted function of the sequence + unfolding axioms
        f = fsum(eng, x.kind.elem)
        eng.assumptions.add('sum(seq) is the left fold from 0: uninterpreted fsum with unfold axioms')
        return V(x.kind.elem, f(x.term))
    raise Unsupported(f'sum of {x.kind!r}')


@builtin('hasattr')
def _hasattr(eng, st, args, kwargs):
    obj, name = args
    if isinstance(obj.kind, KRef) and name.meta is not None:
        cls = obj.kind.cls
        try:
            eng.field_decl(cls, name.meta)
            return BoolV(True)
        except Unsupported:
            return BoolV(False)
    raise Unsupported('hasattr')


@builtin('print')
def _print(eng, st, args, kwargs):
    return NONE


@builtin('warnings.warn')
def _warn(eng, st, args, kwargs):
    return NONE


@builtin('math.sqrt')
def _sqrt(eng, st, args, kwargs):
    (x,) = args
    _, _, rt = eng.num_parts(x, st)
    eng.require(st, rt >= 0, 'ValueError', 'math domain error')
    return RealV(sqrt_term(eng, st, rt))


def sqrt_term(eng, st, rt):
    f = eng.uf_cache.setdefault('sqrt_fn', z3.Function('sqrt_fn', z3.RealSort(), z3.RealSort()))
    s = f(rt)
    eng.fact(st, z3.Implies(rt >= 0, z3.And(s >= 0, s * s == rt)))
    eng.assumptions.add('math.sqrt(x) is the non-negative real s with s*s == x (exact real arithmetic)')
    return s


@builtin('time.time')
def _time(eng, st, args, kwargs):
    # arbitrary float per call: the i-th read of a global clock returns clock_val(i)
    f = eng.uf_cache.setdefault('clock_val', z3.Function('clock_val', z3.IntSort(), z3.RealSort()))
    i = eng.ghost_int(st, 'clock')
    eng.set_ghost_int(st, 'clock', i + 1)
    return RealV(f(i))


@builtin('torch.distributed.barrier')
def _barrier(eng, st, args, kwargs):
    eng.set_ghost_int(st, 'barriers', eng.ghost_int(st, 'barriers') + 1)
    return NONE


@builtin('collections.defaultdict', 'defaultdict')
def _defaultdict(eng, st, args, kwargs):
    # defaultdict(int) / defaultdict(lambda: None): an empty dict; the element kind and the default
    # come from the declared kind of the field / local it is stored into (coerced on store)
    return V(KDict(KStr, KDyn), None, meta='emptydict')


# ---- logger objects: logging.getLogger(...) at module level -> opaque; .log/.info are no-ops
class LoggerV:
    tag = 'logger'


@builtin('logging.getLogger')
def _getlogger(eng, st, args, kwargs):
    return V(KFn, z3.IntVal(0), meta=LoggerV())


@method('logger', 'log', 'info', 'debug', 'warning')
def _log(eng, st, recv, args, kwargs):
    return NONE


# ---- list methods (value semantics: the caller writes the new value back through the l-value)
class Mutation:
    """Returned by in-place container methods: symex writes `new` back to the receiver path."""

    def __init__(self, new, result=NONE):
        self.new, self.result = new, result


@method('list', 'append')
def _append(eng, st, recv, args, kwargs):
    (x,) = args
    kind = recv.kind
    if recv.meta == 'empty':
        kind = KList(x.kind)
        recv = V(kind, ListOps(kind).empty())
    xx = coerce(x, kind.elem)
    return V(KNone, z3.IntVal(0), meta=Mutation(V(kind, ListOps(kind).append(recv.term, xx.term))))


@method('list', 'clear')
def _lclear(eng, st, recv, args, kwargs):
    return V(KNone, z3.IntVal(0), meta=Mutation(V(recv.kind, ListOps(recv.kind).empty())))


@method('list', 'pop')
def _lpop(eng, st, recv, args, kwargs):
    if args:
        raise Unsupported('list.pop(i)')
    lo = ListOps(recv.kind)
    n = lo.len(recv.term)
    eng.require(st, n > 0, 'IndexError', 'pop from empty list')
    last = V(recv.kind.elem, lo.at(recv.term, n - 1))
    return V(last.kind, last.term, meta=Mutation(V(recv.kind, lo.mk(n - 1, lo.arr(recv.term))), last))


@method('list', 'index')
def _lindex(eng, st, recv, args, kwargs):
    (x,) = args
    xx = coerce(x, recv.kind.elem)
    lo = ListOps(recv.kind)
    eng.require(st, lo.contains(recv.term, xx.term), 'ValueError', 'x not in list')
    i = eng.fresh(KInt, 'idx')
    j = z3.Int(fresh_name('j'))
    n = lo.len(recv.term)
    # first position (S4)
    eng.fact(st, z3.And(i.term >= 0, i.term < n, lo.at(recv.term, i.term) == xx.term))
    eng.fact(st, Vm.forall([j], z3.Implies(z3.And(j >= 0, j < i.term), lo.at(recv.term, j) != xx.term),
                           patterns=[lo.at(recv.term, j)]))
    return i


@method('list', 'count')
def _lcount(eng, st, recv, args, kwargs):
    raise Unsupported('list.count')


@method('dict', 'clear')
def _dclear(eng, st, recv, args, kwargs):
    ops = DictOps(recv.kind)
    return V(KNone, z3.IntVal(0), meta=Mutation(V(recv.kind, ops.empty())))


class DictView:
    def __init__(self, d: V, what):
        self.d, self.what = d, what
        self.tag = 'dictview'

    def iter_sequence(self, eng, st):
        k = self.d.kind
        ops = DictOps(k)
        d = self.d.term

        def at(i):
            key = V(k.key, z3.Select(ops.keys(d), i))
            val = V(k.val, z3.Select(ops.vals(d), key.term))
            eng.assume_wellformed(st, val)
            if self.what == 'keys':
                return key
            if self.what == 'values':
                return val
            return TupV([key, val])
        return ops.n(d), at


@method('dict', 'items', 'keys', 'values')
def _dview(eng, st, recv, args, kwargs, _w=[None]):
    raise Unsupported('dispatch')


for _w in ('items', 'keys', 'values'):
    def _mkview(w):
        def fn(eng, st, recv, args, kwargs):
            from .symex import StaticDict
            if recv.meta == 'emptydict':
                return eng.make_list([])
            if isinstance(recv.meta, StaticDict):
                its = recv.meta.items
                return TupV([k if w == 'keys' else v if w == 'values' else TupV([k, v]) for k, v in its])
            return V(KFn, z3.IntVal(0), meta=DictView(recv, w))
        return fn
    METHODS[('dict', _w)] = _mkview(_w)


@method('str', 'lower')
def _lower(eng, st, recv, args, kwargs):
    if isinstance(recv.meta, str):
        return StrV(recv.meta.lower())
    f = eng.uf_cache.setdefault('str_lower', z3.Function('str_lower', Vm.StrS, Vm.StrS))
    return V(KStr, f(recv.term))


@method('str', 'upper')
def _upper(eng, st, recv, args, kwargs):
    if isinstance(recv.meta, str):
        return StrV(recv.meta.upper())
    f = eng.uf_cache.setdefault('str_upper', z3.Function('str_upper', Vm.StrS, Vm.StrS))
    return V(KStr, f(recv.term))


@method('setint', 'pop')
def _spop(eng, st, recv, args, kwargs):
    r = eng.fresh(KInt, 'popped')
    q = z3.Int(fresh_name('q'))
    eng.require(st, z3.Exists([q], z3.Select(recv.term, q)), 'KeyError', 'pop from an empty set')
    eng.fact(st, z3.Select(recv.term, r.term))
    return V(KInt, r.term, meta=Mutation(V(KSetInt, z3.Store(recv.term, r.term, False)), r))


@builtin('getattr')
def _getattr(eng, st, args, kwargs):
    obj, name = args[0], args[1]
    if not isinstance(name.meta, str):
        raise Unsupported('getattr with a non-constant attribute name')
    if len(args) == 3:
        try:
            return eng.getattr(obj, name.meta, st)
        except Unsupported:
            return args[2]
    return eng.getattr(obj, name.meta, st)


@builtin('setattr')
def _setattr(eng, st, args, kwargs):
    obj, name, val = args
    if not isinstance(name.meta, str):
        raise Unsupported('setattr with a non-constant attribute name')
    eng.setattr(obj, name.meta, val, st)
    return NONE


# ---- torch.nn.Module hooks (ghost counters per module)
@method('Module', 'register_forward_pre_hook')
def _reg_fwd(eng, st, recv, args, kwargs):
    cur = eng.read_field(st, recv, 'fwd_hooks', cls='Module')
    eng.write_field(st, recv, 'fwd_hooks', IntV(cur.term + 1), cls='Module')
    return NONE


@method('Module', 'register_full_backward_hook')
def _reg_bwd(eng, st, recv, args, kwargs):
    cur = eng.read_field(st, recv, 'bwd_hooks', cls='Module')
    eng.write_field(st, recv, 'bwd_hooks', IntV(cur.term + 1), cls='Module')
    return NONE


@builtin('reversed')
def _reversed(eng, st, args, kwargs):
    (x,) = args
    if isinstance(x.kind, KList):
        lo = ListOps(x.kind)
        n = lo.len(x.term)
        r = eng.fresh(x.kind, 'rev')
        j = z3.Int(fresh_name('j'))
        eng.fact(st, lo.len(r.term) == n)
        eng.fact(st, Vm.forall([j], z3.Implies(z3.And(j >= 0, j < n), lo.at(r.term, j) == lo.at(x.term, n - 1 - j)),
                               patterns=[lo.at(r.term, j)]))
        return r
    if isinstance(x.kind, KTuple):
        return TupV(list(reversed(tuple_items(x))))
    raise Unsupported(f'reversed of {x.kind!r}')


class ZipV:
    """zip(a, b, ...) as an iterable value: length is the minimum, element i is the tuple of the i-th elements."""
    tag = 'zip'

    def __init__(self, parts):
        self.parts = parts

    def iter_sequence(self, eng, st):
        seqs = [eng.iter_sequence(p, st) for p in self.parts]
        n = seqs[0][0]
        for m, _ in seqs[1:]:
            n = z3.If(m < n, m, n)
        return z3.simplify(n), (lambda i: TupV([at(i) for _, at in seqs]))


@builtin('zip')
def _zip(eng, st, args, kwargs):
    if not args:
        raise Unsupported('zip()')
    return V(KFn, z3.IntVal(0), meta=ZipV(list(args)))


@builtin('sorted')
def _sorted(eng, st, args, kwargs):
    """sorted(xs, key=..., reverse=...): a permutation of xs.  The ORDER is not modelled (nothing proved here
    depends on it; ordering statements are decided by bounded checks) -- only that every element of the result is an
    element of the input at some position and vice versa, and that the length is kept."""
    (x,) = args
    xs = as_list(eng, st, x)
    lo = ListOps(xs.kind)
    n = lo.len(xs.term)
    res = eng.fresh(xs.kind, 'sorted')
    I = z3.IntSort()
    p = z3.Function(fresh_name('perm'), I, I)
    q = z3.Function(fresh_name('perminv'), I, I)
    j = z3.Int(fresh_name('sj'))
    eng.fact(st, lo.len(res.term) == n)
    eng.fact(st, Vm.forall([j], z3.Implies(z3.And(j >= 0, j < n),
                                           z3.And(p(j) >= 0, p(j) < n, lo.at(res.term, j) == lo.at(xs.term, p(j)), q(p(j)) == j)),
                           patterns=[lo.at(res.term, j)]))
    eng.fact(st, Vm.forall([j], z3.Implies(z3.And(j >= 0, j < n),
                                           z3.And(q(j) >= 0, q(j) < n, lo.at(xs.term, j) == lo.at(res.term, q(j)), p(q(j)) == j)),
                           patterns=[lo.at(xs.term, j)]))
    eng.assumptions.add('sorted(xs, ...) is modelled as a permutation of xs (its order is not modelled)')
    return res
