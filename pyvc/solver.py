"""Discharging obligations: z3 (API) primary, cvc5 / z3-new CLI as cross-check back ends.

Only `unsat` counts as discharged.  `sat` (quantifier-free queries only) yields a model that is
handed to the replayer; everything else is `unknown` and goes to the falsifier / verdict policy.
"""
from __future__ import annotations

import os
import subprocess
import tempfile
import time

import z3

from . import values as Vm

z3.set_param('warning', False)
RLIMIT = int(os.environ.get('PYVC_RLIMIT', '30000000'))
TIMEOUT_MS = int(os.environ.get('PYVC_TIMEOUT_MS', '15000'))
TIMEOUT2_MS = int(os.environ.get('PYVC_TIMEOUT2_MS', '4000'))


def has_quantifier(fs):
    seen = set()
    stack = list(fs)
    while stack:
        f = stack.pop()
        i = f.get_id()
        if i in seen:
            continue
        seen.add(i)
        if z3.is_quantifier(f):
            return True
        stack.extend(f.children())
    return False


def build(ob, extra=()):
    fs = list(ob.hyps) + list(extra) + Vm.str_distinct_axioms() + list(Vm.ListOps.axioms)
    return fs, z3.Not(ob.goal)


def _mk_solver(quantified, seed=0, timeout=None):
    if quantified:
        s = z3.SimpleSolver()
        s.set('auto_config', False)
        s.set('smt.mbqi', False)
        s.set('smt.ematching', True)
    else:
        s = z3.Solver()
    s.set('timeout', timeout or TIMEOUT_MS)
    s.set('rlimit', RLIMIT)
    if seed:
        s.set('smt.random_seed', seed)
        s.set('sat.random_seed', seed) if not quantified else None
    return s


def check_z3(fs, neg_goal, quantified, want_model=True, seed=0, timeout=None):
    t0 = time.time()
    s = _mk_solver(quantified, seed, timeout)
    for f in fs:
        s.add(f)
    s.add(neg_goal)
    r = s.check()
    dt = time.time() - t0
    model = None
    reason = ''
    if r == z3.sat and not quantified and want_model:
        model = s.model()
    if r == z3.unknown:
        reason = s.reason_unknown()
    return str(r), model, reason, dt, s


def check_z3_mbqi(fs, neg_goal):
    t0 = time.time()
    s = z3.Solver()
    s.set('timeout', TIMEOUT2_MS)
    for f in fs:
        s.add(f)
    s.add(neg_goal)
    r = s.check()
    return str(r), (s.reason_unknown() if r == z3.unknown else ''), time.time() - t0


def check_roundtrip(smt2, seed=0, timeout=None):
    """Same query re-parsed from SMT-LIB text: a different internal term order; de-flakes E-matching /
    non-linear arithmetic, whose success depends on incidental ordering."""
    t0 = time.time()
    # default solver pipeline (simplify, solve-eqs, ... before the SMT core) with MBQI off: on these queries the
    # preprocessing is worth an order of magnitude over the bare core used for the first attempt
    s = z3.Solver()
    s.set('smt.mbqi', False)
    s.set('smt.auto_config', False)
    s.set('timeout', timeout or TIMEOUT_MS)
    s.set('rlimit', RLIMIT)
    if seed:
        s.set('smt.random_seed', seed)
    try:
        s.add(z3.parse_smt2_string(smt2))
    except z3.Z3Exception:
        return 'unknown', time.time() - t0
    r = s.check()
    return str(r), time.time() - t0


def check_cli(smt2: str, which='cvc5', timeout_s=30):
    with tempfile.NamedTemporaryFile('w', suffix='.smt2', delete=False, dir=os.environ.get('PYVC_TMP')) as f:
        f.write(smt2)
        path = f.name
    try:
        if which == 'cvc5':
            cmd = ['/usr/bin/cvc5', '--strings-exp', f'--tlimit={timeout_s * 1000}', path]
        else:
            cmd = ['z3-new', f'-T:{timeout_s}', path]
        t0 = time.time()
        try:
            out = subprocess.run(cmd, capture_output=True, text=True, timeout=timeout_s + 5)
            res = out.stdout.strip().splitlines()[0] if out.stdout.strip() else 'error:' + out.stderr[:200]
        except subprocess.TimeoutExpired:
            res = 'timeout'
        return res, time.time() - t0
    finally:
        os.unlink(path)


PORTFOLIO_MS = [int(x) for x in os.environ.get('PYVC_PORTFOLIO_MS', '4000,4000,8000,8000,20000').split(',')]
# second round for obligations the first round leaves open (E-matching proofs depend on the seed and on the
# term order: an obligation that is true is usually found by some configuration; a false one exhausts them all)
PORTFOLIO2_MS = [int(x) for x in os.environ.get('PYVC_PORTFOLIO2_MS', '30000,30000,45000,45000').split(',') if x]


def discharge(ob, cross_check=False, short=False):
    if getattr(ob, 'cases', None):
        return discharge_by_cases(ob, cross_check, short)
    return _discharge(ob, cross_check, short)


def discharge_by_cases(ob, cross_check, short):
    """Proof by cases: for every truth assignment of ob.cases, replace the case terms by constants in all
    hypotheses and the goal, simplify, and discharge; the obligation holds iff every case is discharged."""
    import copy
    import itertools
    total, backends = 0.0, []
    for vals in itertools.product([True, False], repeat=len(ob.cases)):
        sub = [(c, z3.BoolVal(v)) for c, v in zip(ob.cases, vals)]
        sb = copy.copy(ob)
        sb.cases = ()
        sb.hyps = [h2 for h2 in (z3.simplify(z3.substitute(h, *sub)) for h in ob.hyps) if not z3.is_true(h2)]
        sb.goal = z3.simplify(z3.substitute(ob.goal, *sub))
        if z3.is_true(sb.goal) or any(z3.is_false(h) for h in sb.hyps):
            continue
        _discharge(sb, cross_check, short)
        total += sb.time_s
        backends.append(sb.backend)
        if sb.status != 'discharged':
            ob.status, ob.reason, ob.backend, ob.time_s, ob.model = sb.status, sb.reason + f' [case {vals}]', sb.backend, total, sb.model
            ob.exhausted = getattr(sb, 'exhausted', False)
            return ob
    ob.status, ob.backend, ob.time_s = 'discharged', '+'.join(sorted(set(backends))) + ' by-cases' if backends else 'by-cases', total
    return ob


def _discharge(ob, cross_check=False, short=False):
    """Portfolio: only `unsat` from some configuration discharges; nothing else is interpreted.
    short=True (a previous obligation of the same function already exhausted the portfolio): first round only."""
    fs, ng = build(ob)
    q = has_quantifier(fs + [ng])
    if not q:
        r, model, reason, dt, s = check_z3(fs, ng, False)
        ob.backend, ob.time_s = 'z3', dt
        if r == 'unsat':
            ob.status = 'discharged'
            return ob
        if r == 'sat':
            ob.status, ob.model = 'failed', model
            return ob
        ob.status, ob.reason = 'unknown', reason
        q = True     # fall through to the portfolio
    total = 0.0
    smt2 = None
    last_reason = ''
    # round 1: alternating configurations with short budgets; round 2 (unless `short`): the SAME configurations
    # with four times the budget, latest first -- a proof that exists is deterministic in (configuration, seed),
    # so what succeeded once succeeds again however busy the machine is
    plan = [('api' if k % 2 == 0 else 'pre', k - (k % 2), ms) for k, ms in enumerate(PORTFOLIO_MS)]
    if not short and os.environ.get('PYVC_FAST') != '1':
        plan += [(kind, seed, 4 * ms) for kind, seed, ms in reversed(plan)]
    ob.exhausted = False
    for k, (kind, seed, ms) in enumerate(plan):
        if kind == 'api':
            r, _, reason, dt, s = check_z3(fs, ng, True, want_model=False, seed=seed, timeout=ms)
            if smt2 is None:
                smt2 = s.to_smt2()
            backend = f'z3-ematch' if seed == 0 else f'z3-ematch(seed={seed})'
        else:
            if smt2 is None:
                continue
            r, dt = check_roundtrip(smt2, seed=seed, timeout=ms)
            reason = ''
            backend = f'z3-ematch(preprocessed,seed={seed})'
        total += dt
        if r == 'unsat':
            ob.status, ob.backend, ob.time_s = 'discharged', backend, total
            _dump(ob, smt2, r)
            return ob
        last_reason = reason or last_reason
        if reason.startswith('(incomplete') and k >= 2:
            break       # E-matching saturated twice: more seeds will not help
    else:
        ob.exhausted = True
    ob.status, ob.reason, ob.backend, ob.time_s = 'unknown', last_reason, 'z3-ematch', total
    r2, reason2, dt2 = check_z3_mbqi(fs, ng)
    ob.time_s += dt2
    if r2 == 'unsat':
        ob.status, ob.backend = 'discharged', 'z3-mbqi'
    elif cross_check and smt2:
        try:
            res, dt3 = check_cli(smt2, 'cvc5')
            ob.time_s += dt3
            if res == 'unsat':
                ob.status, ob.backend = 'discharged', 'cvc5'
        except Exception:     # noqa
            pass
    _dump(ob, smt2, ob.status)
    return ob


def _dump(ob, smt2, r):
    dump = os.environ.get('PYVC_DUMP')
    if dump and smt2 and r != 'unsat':
        os.makedirs(dump, exist_ok=True)
        with open(os.path.join(dump, ob.name.replace('/', '.').replace(':', '_') + '.smt2'), 'w') as f:
            f.write(smt2)


def satisfiable(fs, goal):
    """Cover query: facts + goal satisfiable?  Returns 'sat' | 'unsat' | 'unknown'."""
    fs = list(fs) + Vm.str_distinct_axioms()
    q = has_quantifier(fs + [goal])
    r, _, _, _, _ = check_z3(fs, z3.Not(goal), q, want_model=False)
    # check_z3 adds Not(neg_goal) -> we pass Not(goal) as neg_goal so the solver sees goal... fix:
    return r


def cover(fs, goal):
    fs = list(fs) + Vm.str_distinct_axioms() + list(Vm.ListOps.axioms)
    q = has_quantifier(fs + [goal])
    if q:
        s = z3.SimpleSolver()
        s.set('auto_config', False)
        s.set('smt.mbqi', False)
    else:
        s = z3.Solver()
    s.set('timeout', 5000)
    for f in fs:
        s.add(f)
    s.add(goal)
    r = s.check()
    return str(r)
