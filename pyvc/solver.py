"""Discharging obligations: z3 (API) primary, cvc5 / z3-new CLI as cross-check back ends.

Only `unsat` counts as discharged.  `sat` (quantifier-free queries only) yields a model that is
handed to the replayer; everything else is `unknown` and goes to the falsifier / verdict policy.
"""
from __future__ import annotations

import os
import subprocess
import tempfile
import time

import z3

from . import values as Vm

RLIMIT = int(os.environ.get('PYVC_RLIMIT', '30000000'))
TIMEOUT_MS = int(os.environ.get('PYVC_TIMEOUT_MS', '20000'))


def has_quantifier(fs):
    seen = set()
    stack = list(fs)
    while stack:
        f = stack.pop()
        i = f.get_id()
        if i in seen:
            continue
        seen.add(i)
        if z3.is_quantifier(f):
            return True
        stack.extend(f.children())
    return False


def build(ob, extra=()):
    fs = list(ob.hyps) + list(extra) + Vm.str_distinct_axioms()
    return fs, z3.Not(ob.goal)


def check_z3(fs, neg_goal, quantified, want_model=True):
    t0 = time.time()
    if quantified:
        s = z3.SimpleSolver()
        s.set('auto_config', False)
        s.set('smt.mbqi', False)
        s.set('smt.ematching', True)
    else:
        s = z3.Solver()
    s.set('timeout', TIMEOUT_MS)
    s.set('rlimit', RLIMIT)
    for f in fs:
        s.add(f)
    s.add(neg_goal)
    r = s.check()
    dt = time.time() - t0
    model = None
    reason = ''
    if r == z3.sat and not quantified and want_model:
        model = s.model()
    if r == z3.unknown:
        reason = s.reason_unknown()
    return str(r), model, reason, dt, s


def check_z3_mbqi(fs, neg_goal):
    t0 = time.time()
    s = z3.Solver()
    s.set('timeout', TIMEOUT_MS)
    for f in fs:
        s.add(f)
    s.add(neg_goal)
    r = s.check()
    return str(r), (s.reason_unknown() if r == z3.unknown else ''), time.time() - t0


def check_cli(smt2: str, which='cvc5', timeout_s=30):
    with tempfile.NamedTemporaryFile('w', suffix='.smt2', delete=False, dir=os.environ.get('PYVC_TMP')) as f:
        f.write(smt2)
        path = f.name
    try:
        if which == 'cvc5':
            cmd = ['/usr/bin/cvc5', '--strings-exp', f'--tlimit={timeout_s * 1000}', path]
        else:
            cmd = ['z3-new', f'-T:{timeout_s}', path]
        t0 = time.time()
        try:
            out = subprocess.run(cmd, capture_output=True, text=True, timeout=timeout_s + 5)
            res = out.stdout.strip().splitlines()[0] if out.stdout.strip() else 'error:' + out.stderr[:200]
        except subprocess.TimeoutExpired:
            res = 'timeout'
        return res, time.time() - t0
    finally:
        os.unlink(path)


def discharge(ob, cross_check=False):
    fs, ng = build(ob)
    q = has_quantifier(fs + [ng])
    r, model, reason, dt, s = check_z3(fs, ng, q)
    ob.backend = 'z3-ematch' if q else 'z3'
    ob.time_s = dt
    if r == 'unsat':
        ob.status = 'discharged'
    elif r == 'sat':
        ob.status = 'failed'
        ob.model = model
    else:
        ob.status = 'unknown'
        ob.reason = reason
        if q:
            # second configuration: default solver (MBQI on) under the same budget
            r2, reason2, dt2 = check_z3_mbqi(fs, ng)
            ob.time_s += dt2
            if r2 == 'unsat':
                ob.status = 'discharged'
                ob.backend = 'z3-mbqi'
            elif r2 == 'sat':
                ob.status = 'unknown'
                ob.reason = 'sat under MBQI (model over quantified hypotheses, not trusted)'
        if ob.status == 'unknown' and cross_check:
            try:
                smt2 = s.to_smt2()
                res, dt3 = check_cli(smt2, 'cvc5')
                ob.time_s += dt3
                if res == 'unsat':
                    ob.status = 'discharged'
                    ob.backend = 'cvc5'
            except Exception as e:     # noqa
                pass
    return ob


def satisfiable(fs, goal):
    """Cover query: facts + goal satisfiable?  Returns 'sat' | 'unsat' | 'unknown'."""
    fs = list(fs) + Vm.str_distinct_axioms()
    q = has_quantifier(fs + [goal])
    r, _, _, _, _ = check_z3(fs, z3.Not(goal), q, want_model=False)
    # check_z3 adds Not(neg_goal) -> we pass Not(goal) as neg_goal so the solver sees goal... fix:
    return r


def cover(fs, goal):
    fs = list(fs) + Vm.str_distinct_axioms()
    q = has_quantifier(fs + [goal])
    if q:
        s = z3.SimpleSolver()
        s.set('auto_config', False)
        s.set('smt.mbqi', False)
    else:
        s = z3.Solver()
    s.set('timeout', 5000)
    for f in fs:
        s.add(f)
    s.add(goal)
    r = s.check()
    return str(r)
