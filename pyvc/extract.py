"""Mechanical extraction of function definitions from the /repo working tree.

Nothing is copied into /verif: every run re-parses the current source text and
hands `ast.FunctionDef` nodes to the symbolic executor.  Keys have the form
``kfac.assignment:KAISAAssignment.partition_grad_workers`` (nested functions
are ``outer.inner``; property setters get the suffix ``@setter``).
"""
from __future__ import annotations

import ast
import hashlib
import os
from dataclasses import dataclass, field

REPO = os.environ.get('PYVC_REPO', '/repo')


@dataclass
class FuncInfo:
    key: str
    module: str
    qualname: str
    node: ast.AST
    file: str
    lines: tuple
    sha256: str
    cls: str | None = None
    decorators: list = field(default_factory=list)
    is_property: bool = False
    is_setter: bool = False
    is_static: bool = False


@dataclass
class ClassInfo:
    key: str
    module: str
    name: str
    bases: list
    node: ast.ClassDef
    methods: dict = field(default_factory=dict)   # name -> FuncInfo (getter for properties)
    setters: dict = field(default_factory=dict)   # name -> FuncInfo
    dataclass_fields: list | None = None


class Repo:
    def __init__(self, root: str = REPO):
        self.root = root
        self.funcs: dict[str, FuncInfo] = {}
        self.classes: dict[str, ClassInfo] = {}    # by bare class name
        self.module_src: dict[str, str] = {}
        self.module_ast: dict[str, ast.Module] = {}
        self.module_globals: dict[str, dict] = {}  # module -> name -> ast node (simple assigns)
        self.imports: dict[str, dict] = {}         # module -> local name -> dotted target
        self._load()

    def _load(self):
        base = os.path.join(self.root, 'kfac')
        for dirpath, _, files in sorted(os.walk(base)):
            for f in sorted(files):
                if not f.endswith('.py'):
                    continue
                path = os.path.join(dirpath, f)
                rel = os.path.relpath(path, self.root)[:-3].replace(os.sep, '.')
                if rel.endswith('.__init__'):
                    rel = rel[: -len('.__init__')]
                src = open(path).read()
                self.module_src[rel] = src
                tree = ast.parse(src)
                self.module_ast[rel] = tree
                self.imports[rel] = {}
                self.module_globals[rel] = {}
                self._walk(rel, path, src, tree.body, [], None)
                for st in tree.body:
                    self._top(rel, st)

    def _top(self, mod, st):
        if isinstance(st, ast.ImportFrom) and st.module:
            for a in st.names:
                self.imports[mod][a.asname or a.name] = f'{st.module}.{a.name}'
        elif isinstance(st, ast.Import):
            for a in st.names:
                self.imports[mod][a.asname or a.name.split('.')[0]] = (
                    a.name if a.asname else a.name.split('.')[0]
                )
        elif isinstance(st, (ast.Assign, ast.AnnAssign)):
            tgts = st.targets if isinstance(st, ast.Assign) else [st.target]
            for t in tgts:
                if isinstance(t, ast.Name) and st.value is not None:
                    self.module_globals[mod][t.id] = st.value
        elif isinstance(st, ast.Try):
            for s in st.body + [x for h in st.handlers for x in h.body]:
                self._top(mod, s)

    def _walk(self, mod, path, src, body, prefix, cls):
        for st in body:
            if isinstance(st, (ast.FunctionDef, ast.AsyncFunctionDef)):
                q = '.'.join(prefix + [st.name])
                decos = [ast.unparse(d) for d in st.decorator_list]
                is_setter = any(d.endswith('.setter') for d in decos)
                key = f'{mod}:{q}' + ('@setter' if is_setter else '')
                seg = ast.get_source_segment(src, st) or ''
                fi = FuncInfo(
                    key=key, module=mod, qualname=q, node=st, file=path,
                    lines=(st.lineno, st.end_lineno),
                    sha256=hashlib.sha256(seg.encode()).hexdigest(),
                    cls=cls.name if cls else None, decorators=decos,
                    is_property='property' in decos, is_setter=is_setter,
                    is_static='staticmethod' in decos,
                )
                self.funcs[key] = fi
                if cls is not None and len(prefix) == 1:
                    if is_setter:
                        cls.setters[st.name] = fi
                    else:
                        cls.methods[st.name] = fi
                self._walk(mod, path, src, st.body, prefix + [st.name], None)
            elif isinstance(st, ast.ClassDef):
                ci = ClassInfo(
                    key=f'{mod}:{st.name}', module=mod, name=st.name,
                    bases=[ast.unparse(b) for b in st.bases], node=st,
                )
                if any('dataclass' in ast.unparse(d) for d in st.decorator_list):
                    ci.dataclass_fields = [
                        s.target.id for s in st.body
                        if isinstance(s, ast.AnnAssign) and isinstance(s.target, ast.Name)
                    ]
                self.classes[st.name] = ci
                self._walk(mod, path, src, st.body, prefix + [st.name], ci)
            elif isinstance(st, (ast.If, ast.For, ast.While, ast.With, ast.Try)):
                # nested defs inside compound statements of a function body
                for sub in ast.iter_child_nodes(st):
                    if isinstance(sub, list):
                        continue
                for fld in ('body', 'orelse', 'finalbody'):
                    b = getattr(st, fld, None)
                    if b:
                        self._walk(mod, path, src, b, prefix, cls)

    # ---- class helpers
    def mro(self, cname: str) -> list:
        out, seen = [], set()

        def go(c):
            if c in seen or c not in self.classes:
                return
            seen.add(c)
            out.append(c)
            for b in self.classes[c].bases:
                go(b.split('.')[-1])
        go(cname)
        return out

    def find_method(self, cname: str, mname: str, after: str | None = None):
        """Resolve a method along the MRO; `after` = class to start after (super())."""
        mro = self.mro(cname)
        if after is not None and after in mro:
            mro = mro[mro.index(after) + 1:]
        for c in mro:
            ci = self.classes[c]
            if mname in ci.methods:
                return ci.methods[mname]
        return None

    def find_setter(self, cname: str, pname: str):
        for c in self.mro(cname):
            ci = self.classes[c]
            if pname in ci.setters:
                return ci.setters[pname]
        return None

    def is_subclass(self, cname: str, base: str) -> bool:
        return base in self.mro(cname)

    def subclasses(self, base: str) -> list:
        return [c for c in self.classes if self.is_subclass(c, base)]


def body_without_docstring(node):
    body = list(node.body)
    if body and isinstance(body[0], ast.Expr) and isinstance(body[0].value, ast.Constant) \
            and isinstance(body[0].value.value, str):
        body = body[1:]
    return body
