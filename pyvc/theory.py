"""Background theory for the matrix-level function symbols (DESIGN 5.4): pure mathematics about
m_mul, m_add, ... used ONLY by lemma obligations (never by function-body obligations, which are
discharged by congruence).  Each axiom has a name; lemmas list the axiom groups they use and these
are recorded as assumptions in the evidence.
"""
from __future__ import annotations

import z3

from . import tensors as T
from .values import ListOps

M, R, I, LS = T.M, z3.RealSort(), z3.IntSort(), T.LS
F = z3.ForAll


def groups():
    mul = T.mf('mul', M, M, M)
    add = T.mf('add', M, M, M)
    smul = T.mf('smul', R, M, M)
    sdiv = T.mf('sdiv', M, R, M)
    tr = T.mf('tr', M, M)
    inv = T.mf('inv', M, M)
    hcat = T.mf('hcat', M, M, M)
    lcols = T.mf('lcols', M, M)
    lastcol = T.mf('lastcol', M, M)
    view = T.mf('view', M, LS, LS, M)
    onecol = z3.Function('m_onecol', M, z3.BoolSort())
    eye = z3.Function('m_eye', M)        # identity of the right size (dimension-polymorphic)
    invertible = z3.Function('m_invertible', M, z3.BoolSort())
    A, B, C = z3.Consts('tA tB tC', M)
    a, b = z3.Reals('ta tb')
    s1, s2, s3 = z3.Consts('ts1 ts2 ts3', LS)
    g = {}
    g['blocks'] = [
        F([A, B], z3.Implies(onecol(B), lcols(hcat(A, B)) == A), patterns=[lcols(hcat(A, B))]),
        F([A, B], z3.Implies(onecol(B), lastcol(hcat(A, B)) == B), patterns=[lastcol(hcat(A, B))]),
        F([A], hcat(lcols(A), lastcol(A)) == A, patterns=[hcat(lcols(A), lastcol(A))]),
        F([A], onecol(lastcol(A)), patterns=[lastcol(A)]),
        F([a, A], lcols(smul(a, A)) == smul(a, lcols(A)), patterns=[lcols(smul(a, A))]),
        F([a, A], lastcol(smul(a, A)) == smul(a, lastcol(A)), patterns=[lastcol(smul(a, A))]),
    ]
    g['view'] = [
        F([A, s1], view(A, s1, s1) == A, patterns=[view(A, s1, s1)]),
        F([A, s1, s2, s3], view(view(A, s1, s2), s2, s3) == view(A, s1, s3), patterns=[view(view(A, s1, s2), s2, s3)]),
        F([a, A, s1, s2], view(smul(a, A), s1, s2) == smul(a, view(A, s1, s2)), patterns=[view(smul(a, A), s1, s2)]),
    ]
    g['ring'] = [
        F([A, B, C], mul(mul(A, B), C) == mul(A, mul(B, C)), patterns=[mul(mul(A, B), C)]),
        F([A, B, C], mul(A, mul(B, C)) == mul(mul(A, B), C), patterns=[mul(A, mul(B, C))]),
        F([A], mul(eye(), A) == A, patterns=[mul(eye(), A)]),
        F([A], mul(A, eye()) == A, patterns=[mul(A, eye())]),
        F([A], z3.Implies(invertible(A), z3.And(mul(inv(A), A) == eye(), mul(A, inv(A)) == eye())), patterns=[inv(A)]),
        F([A, B], add(A, B) == add(B, A), patterns=[add(A, B)]),
        F([A, B, C], mul(A, add(B, C)) == add(mul(A, B), mul(A, C)), patterns=[mul(A, add(B, C))]),
        F([A, B, C], mul(add(A, B), C) == add(mul(A, C), mul(B, C)), patterns=[mul(add(A, B), C)]),
        F([a, A, B], mul(smul(a, A), B) == smul(a, mul(A, B)), patterns=[mul(smul(a, A), B)]),
        F([a, A, B], mul(A, smul(a, B)) == smul(a, mul(A, B)), patterns=[mul(A, smul(a, B))]),
    ]
    g['transpose'] = [
        F([A], tr(tr(A)) == A, patterns=[tr(tr(A))]),
        F([A, B], tr(mul(A, B)) == mul(tr(B), tr(A)), patterns=[tr(mul(A, B))]),
        F([A, B], tr(add(A, B)) == add(tr(A), tr(B)), patterns=[tr(add(A, B))]),
        F([a, A], tr(smul(a, A)) == smul(a, tr(A)), patterns=[tr(smul(a, A))]),
        F([A, a], tr(sdiv(A, a)) == sdiv(tr(A), a), patterns=[tr(sdiv(A, a))]),
        F([A, B, a], mul(A, sdiv(B, a)) == sdiv(mul(A, B), a), patterns=[mul(A, sdiv(B, a))]),
    ]
    hdiv = T.mf('hdiv', M, M, M)
    hmul = T.mf('hmul', M, M, M)
    outer = T.mf('outer', M, M, M)
    sadd = T.mf('sadd', M, R, M)
    rdiv = T.mf('rdiv', R, M, M)
    diag = T.mf('diag', M, M)
    nonneg = z3.Function('m_nonneg', M, z3.BoolSort())
    u, v = z3.Consts('tu tv', M)
    # L1 (Hadamard division by the damped eigenvalue products undoes the two-sided diagonal scaling):
    #   diag(u) (M ./ (u v^T + lam)) diag(v) + lam (M ./ (u v^T + lam)) == M      for u, v >= 0, lam > 0
    g['hadamard'] = [
        F([A, u, v, a], z3.Implies(z3.And(nonneg(u), nonneg(v), a > 0),
                                   add(mul(mul(diag(u), hdiv(A, sadd(outer(u, v), a))), diag(v)), smul(a, hdiv(A, sadd(outer(u, v), a)))) == A),
          patterns=[hdiv(A, sadd(outer(u, v), a))]),
        # multiplying by the pre-divided reciprocal is the same as dividing
        F([A, B, a], hmul(A, rdiv(1, sadd(B, a))) == hdiv(A, sadd(B, a)), patterns=[hmul(A, rdiv(1, sadd(B, a)))]),
        F([A], nonneg(T.mf('clampmin', M, R, M)(A, 0)), patterns=[T.mf('clampmin', M, R, M)(A, 0)]),
    ]
    # ---- element-level meaning of the indexing operations used by get_triu / fill_triu (C14), for n x n matrices:
    # triuidx(n, n, off) lists the positions (i, j), i + off <= j, row-major; pos_off(n, i, j) is the place of (i, j)
    gather2 = T.mf('gather2', M, M, M, M)
    put2 = T.mf('put2', M, M, M, M, M)
    row = T.mf('row', M, I, M)
    triuidx = T.mf('triuidx', I, I, I, M)
    allsum = T.mf('allsum', M, z3.ArraySort(I, z3.BoolSort()), M)
    elem = T.mf('elem', M, I, I, R)
    velem = T.mf('velem', M, I, R)
    pos = z3.Function('m_tripos', I, I, I, I, I)       # (n, offset, i, j) -> index in the packed vector
    n, i, j, k, off = z3.Ints('tn ti tj tk toff')
    D, X, G_ = z3.Consts('tD tX tG', M)
    gs = z3.Const('tgs', z3.ArraySort(I, z3.BoolSort()))

    def RC(o):
        return row(triuidx(n, n, o), 0), row(triuidx(n, n, o), 1)
    ax = []
    for o in (0, 1):
        r_, c_ = RC(o)
        inside = z3.And(i >= 0, i + o <= j, j < n)
        ax += [
            F([X, n, i, j], z3.Implies(inside, velem(gather2(X, r_, c_), pos(n, o, i, j)) == elem(X, i, j)),
              patterns=[velem(gather2(X, r_, c_), pos(n, o, i, j))]),
            F([D, X, n, i, j], elem(put2(D, r_, c_, X), i, j) == z3.If(inside, velem(X, pos(n, o, i, j)), elem(D, i, j)),
              patterns=[elem(put2(D, r_, c_, X), i, j)]),
        ]
    ax += [
        F([X, i, j], elem(tr(X), i, j) == elem(X, j, i), patterns=[elem(tr(X), i, j)]),
        F([a, X, i, j], elem(smul(a, X), i, j) == a * elem(X, i, j), patterns=[elem(smul(a, X), i, j)]),
        F([a, X, k], velem(smul(a, X), k) == a * velem(X, k), patterns=[velem(smul(a, X), k)]),
        # an element-wise sum over ranks commutes with picking elements (every rank uses the same indices)
        F([X, D, G_, gs], allsum(gather2(X, D, G_), gs) == gather2(allsum(X, gs), D, G_), patterns=[allsum(gather2(X, D, G_), gs)]),
    ]
    g['triu'] = ax
    return g, {'onecol': onecol, 'eye': eye, 'invertible': invertible, 'nonneg': nonneg}
