"""Spec-only functions available in contract expressions."""
from __future__ import annotations

import z3

from .contracts import spec
from .values import BoolV, StrV, V, KFn, Unsupported, SpecError


@spec('is_closure')
def _is_closure(eng, st, args, kwargs):
    from .symex import Closure
    v, q = args
    m = v.meta
    return BoolV(isinstance(m, Closure) and m.qual == q.meta)


@spec('captured')
def _captured(eng, st, args, kwargs):
    from .symex import Closure
    v, n = args
    if not isinstance(v.meta, Closure):
        raise SpecError('captured() of a non-closure')
    return v.meta.env[n.meta]


@spec('same')
def _same(eng, st, args, kwargs):
    """Identical value *and* type (no numeric coercion), None only equal to None."""
    from .values import to_dyn, KDyn, KNone, KRef
    a, b = args
    if a.kind == b.kind and a.kind != KDyn:
        return BoolV(a.term == b.term)
    try:
        return BoolV(to_dyn(a).term == to_dyn(b).term)
    except Unsupported:
        return BoolV(False)
