"""Spec-only functions available in contract expressions."""
from __future__ import annotations

import z3

from .contracts import spec
from .values import BoolV, StrV, V, KFn, Unsupported, SpecError


@spec('is_closure')
def _is_closure(eng, st, args, kwargs):
    from .symex import Closure
    v, q = args
    m = v.meta
    return BoolV(isinstance(m, Closure) and m.qual == q.meta)


@spec('captured')
def _captured(eng, st, args, kwargs):
    from .symex import Closure
    v, n = args
    if not isinstance(v.meta, Closure):
        raise SpecError('captured() of a non-closure')
    return v.meta.env[n.meta]


@spec('same')
def _same(eng, st, args, kwargs):
    """Identical value *and* type (no numeric coercion), None only equal to None."""
    from .values import to_dyn, KDyn, KNone, KRef
    a, b = args
    if a.kind == b.kind and a.kind != KDyn:
        return BoolV(a.term == b.term)
    try:
        return BoolV(to_dyn(a).term == to_dyn(b).term)
    except Unsupported:
        return BoolV(False)


@spec('key_at')
def _key_at(eng, st, args, kwargs):
    """j-th key of a dict in insertion order."""
    from .values import DictOps, KDict
    d, j = args
    ops = DictOps(d.kind)
    return V(d.kind.key, z3.Select(ops.keys(d.term), eng.as_int(j, st)))


@spec('call')
def _call(eng, st, args, kwargs):
    """Value returned by calling an unknown callable with the given (packed) arguments."""
    fn, *rest = args
    return eng.call_unknown(fn, rest, {}, st)


@spec('call_raises')
def _call_raises(eng, st, args, kwargs):
    from .values import to_dyn, DynS, KDyn, KFn
    fn, *rest = args
    fid = DynS.fid(fn.term) if fn.kind == KDyn else fn.term
    dargs = [to_dyn(a).term for a in rest]
    rname = f'raises{len(dargs)}'
    if rname not in eng.uf_cache:
        eng.uf_cache[rname] = z3.Function(rname, z3.IntSort(), *([DynS] * len(dargs)), z3.BoolSort())
    return BoolV(eng.uf_cache[rname](fid, *dargs))


@spec('calls_made')
def _calls_made(eng, st, args, kwargs):
    from .values import IntV
    return IntV(eng.ghost_int(st, 'calls'))


@spec('clock_reads')
def _clock_reads(eng, st, args, kwargs):
    from .values import IntV
    return IntV(eng.ghost_int(st, 'clock'))


@spec('clock_at')
def _clock_at(eng, st, args, kwargs):
    """Value returned by the i-th time.time() read (global read counter)."""
    from .values import RealV
    (i,) = args
    f = eng.uf_cache.setdefault('clock_val', z3.Function('clock_val', z3.IntSort(), z3.RealSort()))
    return RealV(f(eng.as_int(i, st)))


@spec('same_dict')
def _same_dict(eng, st, args, kwargs):
    a, b = args
    return BoolV(a.term == b.term)


# ---- families of sets (set of frozensets built by a comprehension)
@spec('n_groups')
def _n_groups(eng, st, args, kwargs):
    from .values import IntV
    (fam,) = args
    return IntV(fam.meta.n)


@spec('group')
def _group(eng, st, args, kwargs):
    """i-th member (by construction index, not iteration order) of a family of sets."""
    from .values import KSetInt
    fam, i = args
    return V(KSetInt, fam.meta.member(eng.as_int(i, st)))


@spec('pt')
def _pt(eng, st, args, kwargs):
    """pt(a, s, k) == a + k*s, as the trigger term of the range-membership axiom."""
    from .values import IntV
    a, s, k = [eng.as_int(x, st) for x in args]
    eng.rangeset()
    return IntV(eng.uf_cache['rangept'](a, s, k))


@spec('rangeset')
def _rangeset(eng, st, args, kwargs):
    from .values import KSetInt
    a, b, s = [eng.as_int(x, st) for x in args]
    return V(KSetInt, eng.rangeset()(a, b, s))
