"""Spec-only functions available in contract expressions."""
from __future__ import annotations

import z3

from .contracts import spec
from .values import BoolV, StrV, V, KFn, Unsupported, SpecError


@spec('is_closure')
def _is_closure(eng, st, args, kwargs):
    from .symex import Closure
    v, q = args
    m = v.meta
    return BoolV(isinstance(m, Closure) and m.qual == q.meta)


@spec('captured')
def _captured(eng, st, args, kwargs):
    from .symex import Closure
    v, n = args
    if not isinstance(v.meta, Closure):
        raise SpecError('captured() of a non-closure')
    return v.meta.env[n.meta]


@spec('same')
def _same(eng, st, args, kwargs):
    """Identical value *and* type (no numeric coercion), None only equal to None."""
    from .values import to_dyn, KDyn, KNone, KRef
    a, b = args
    if a.kind == b.kind and a.kind != KDyn:
        return BoolV(a.term == b.term)
    try:
        return BoolV(to_dyn(a).term == to_dyn(b).term)
    except Unsupported:
        return BoolV(False)


@spec('key_at')
def _key_at(eng, st, args, kwargs):
    """j-th key of a dict in insertion order."""
    from .values import DictOps, KDict
    d, j = args
    ops = DictOps(d.kind)
    return V(d.kind.key, z3.Select(ops.keys(d.term), eng.as_int(j, st)))


@spec('call')
def _call(eng, st, args, kwargs):
    """Value returned by calling an unknown callable with the given (packed) arguments."""
    fn, *rest = args
    return eng.call_unknown(fn, rest, {}, st)


@spec('call_raises')
def _call_raises(eng, st, args, kwargs):
    from .values import to_dyn, DynS, KDyn, KFn
    fn, *rest = args
    fid = DynS.fid(fn.term) if fn.kind == KDyn else fn.term
    dargs = [to_dyn(a).term for a in rest]
    rname = f'raises{len(dargs)}'
    if rname not in eng.uf_cache:
        eng.uf_cache[rname] = z3.Function(rname, z3.IntSort(), *([DynS] * len(dargs)), z3.BoolSort())
    return BoolV(eng.uf_cache[rname](fid, *dargs))


@spec('calls_made')
def _calls_made(eng, st, args, kwargs):
    from .values import IntV
    return IntV(eng.ghost_int(st, 'calls'))


@spec('clock_reads')
def _clock_reads(eng, st, args, kwargs):
    from .values import IntV
    return IntV(eng.ghost_int(st, 'clock'))


@spec('clock_at')
def _clock_at(eng, st, args, kwargs):
    """Value returned by the i-th time.time() read (global read counter)."""
    from .values import RealV
    (i,) = args
    f = eng.uf_cache.setdefault('clock_val', z3.Function('clock_val', z3.IntSort(), z3.RealSort()))
    return RealV(f(eng.as_int(i, st)))


@spec('same_dict')
def _same_dict(eng, st, args, kwargs):
    a, b = args
    return BoolV(a.term == b.term)


# ---- families of sets (set of frozensets built by a comprehension)
@spec('n_groups')
def _n_groups(eng, st, args, kwargs):
    from .values import IntV
    (fam,) = args
    return IntV(fam.meta.n)


@spec('group')
def _group(eng, st, args, kwargs):
    """i-th member (by construction index, not iteration order) of a family of sets."""
    from .values import KSetInt
    fam, i = args
    return V(KSetInt, fam.meta.member(eng.as_int(i, st)))


@spec('pt')
def _pt(eng, st, args, kwargs):
    """pt(a, s, k) == a + k*s, as the trigger term of the range-membership axiom."""
    from .values import IntV
    a, s, k = [eng.as_int(x, st) for x in args]
    eng.rangeset()
    return IntV(eng.uf_cache['rangept'](a, s, k))


@spec('rangeset')
def _rangeset(eng, st, args, kwargs):
    from .values import KSetInt
    a, b, s = [eng.as_int(x, st) for x in args]
    return V(KSetInt, eng.rangeset()(a, b, s))


# ---- matrix-level spec functions: contracts speak about tensor *values* with the same uninterpreted
# operations the torch models use, so code-vs-formula is congruence; algebra lives in lemmas.
def _as_mat(eng, st, x):
    from . import tensors as T
    if T.is_tensor(x) or (hasattr(x.kind, 'cls') and x.kind.cls is None and x.kind.name.startswith('Ref')):
        return T.tv(eng, st, V(T.KRef('Tensor'), x.term))
    if x.kind == T.KMat:
        return x.term
    raise SpecError(f'matrix expected, got {x.kind!r}')


def _as_real(eng, st, x):
    _, _, r = eng.num_parts(x, st)
    return r


def _mat_op(name, sig):
    """sig: string of argument sorts: M matrix, R real, I int, L shape list; last char = result."""
    from . import tensors as T
    sorts = {'M': T.M, 'R': z3.RealSort(), 'I': z3.IntSort(), 'L': T.LS}

    @spec(name)
    def fn(eng, st, args, kwargs, name=name, sig=sig):
        ts = []
        for a, c in zip(args, sig[:-1]):
            if c == 'M':
                ts.append(_as_mat(eng, st, a))
            elif c == 'R':
                ts.append(_as_real(eng, st, a))
            elif c == 'I':
                from .values import KRef as _KR, KNone as _KN
                ts.append(a.term if (isinstance(a.kind, _KR) or a.kind == _KN) else eng.as_int(a, st))
            else:
                ts.append(a.term)
        f = T.mf(name, *[sorts[c] for c in sig])
        r = f(*ts)
        if sig[-1] == 'M':
            return V(T.KMat, r)
        if sig[-1] == 'R':
            from .values import RealV
            return RealV(r)
        from .values import IntV
        return IntV(r)
    return fn


for _n, _s in [('mul', 'MMM'), ('add', 'MMM'), ('sub', 'MMM'), ('hmul', 'MMM'), ('hdiv', 'MMM'), ('smul', 'RMM'),
               ('sadd', 'MRM'), ('sdiv', 'MRM'), ('rdiv', 'RMM'), ('tr', 'MM'), ('inv', 'MM'), ('diag', 'MM'),
               ('full', 'LRM'), ('hcat', 'MMM'), ('lcols', 'MM'), ('lastcol', 'MM'), ('view', 'MLLM'),
               ('eigvals', 'MM'), ('eigvecs', 'MM'), ('clampmin', 'MRM'), ('outer', 'MMM'), ('sumall', 'MM'),
               ('item', 'MR'), ('numel', 'LI'), ('patches', 'MLIIIIIIM')]:
    _mat_op(_n, _s)


@spec('val')
def _val(eng, st, args, kwargs):
    from . import tensors as T
    return V(T.KMat, _as_mat(eng, st, args[0]))


@spec('is_tensor')
def _is_tensor(eng, st, args, kwargs):
    (x,) = args
    return BoolV(eng.isinstance_term(st, x, 'Tensor'))


@spec('is_future')
def _is_future(eng, st, args, kwargs):
    (x,) = args
    return BoolV(eng.isinstance_term(st, x, 'Future'))


@spec('fresh_storage')
def _fresh_storage(eng, st, args, kwargs):
    """The tensor's storage was allocated during this call."""
    from . import tensors as T
    (x,) = args
    sid = T.tf(eng, st, V(T.KRef('Tensor'), x.term), 'sid').term
    key = '$ghost:next_sid'
    cur = eng.heap_array(st, key, T.KInt)
    arr = eng._spec_old.heap.get(key)
    if arr is None:
        arr = eng.old_heap.get(key, cur)
    old_next = z3.Select(arr, 0)
    return BoolV(sid >= old_next)
_mat_op('infer_extent', 'III')
for _n, _s in [('transpose', 'MIIM'), ('unfold', 'MIIIM'), ('pad', 'MIIIIM')]:
    _mat_op(_n, _s)


@spec('shape_is')
def _shape_is(eng, st, args, kwargs):
    """The tensor's shape list is exactly (as a value, canonical representation) the given list."""
    from . import tensors as T
    t, lst = args
    sh = T.tf(eng, st, V(T.KRef('Tensor'), t.term), 'shape')
    return BoolV(sh.term == T.canon_shape(lst).term)


@spec('onecol')
def _onecol(eng, st, args, kwargs):
    from . import theory as TH
    _, syms = TH.groups()
    return BoolV(syms['onecol'](_as_mat(eng, st, args[0])))


@spec('invertible')
def _invertible(eng, st, args, kwargs):
    from . import theory as TH
    _, syms = TH.groups()
    return BoolV(syms['invertible'](_as_mat(eng, st, args[0])))


@spec('eye')
def _eye(eng, st, args, kwargs):
    from . import theory as TH
    from . import tensors as T
    _, syms = TH.groups()
    return V(T.KMat, syms['eye']())


# ---- communication / futures (spec level)
@spec('awaited')
def _awaited(eng, st, args, kwargs):
    """The tensor a field of kind Tensor|Future|None stands for once pending futures are awaited."""
    from . import tensors as T
    (x,) = args
    isf = eng.isinstance_term(st, x, 'Future')
    wb = eng.read_field(st, V(T.KRef('Future'), x.term), 'will_be', cls='Future') if True else None
    return V(T.KRef('Tensor'), z3.If(isf, wb.term, x.term))


@spec('group_size')
def _group_size(eng, st, args, kwargs):
    from .values import IntV
    (g,) = args
    return IntV(eng.D.gsize(eng, st, g))


@spec('in_group')
def _in_group(eng, st, args, kwargs):
    (g,) = args
    return BoolV(eng.D.is_member(eng, st, g))


@spec('allsum')
def _allsum(eng, st, args, kwargs):
    from . import tensors as T
    from . import values as Vm
    v, g = args
    return V(T.KMat, T.mf('allsum', T.M, Vm.SetIntS, T.M)(_as_mat(eng, st, v), eng.D.members(eng, st, g)))


@spec('vals')
def _vals(eng, st, args, kwargs):
    """vals(ts): the list of the values of the tensors of a list (used under old() to name their entry values)."""
    from . import tensors as T
    from .values import KList, ListOps, fresh_name
    from . import values as Vm
    (ts,) = args
    li, lo = ListOps(ts.kind), ListOps(KList(T.KMat))
    hv = T._arr(eng, st, 'val')
    key = ('vals', ts.term.get_id(), hv.get_id())
    if key not in eng.uf_cache:
        out = z3.Const(fresh_name('vals'), KList(T.KMat).sort())
        j = z3.Int(fresh_name('vj'))
        eng.fact(st, lo.len(out) == li.len(ts.term))
        eng.fact(st, Vm.forall([j], z3.Implies(z3.And(j >= 0, j < li.len(ts.term)), lo.at(out, j) == z3.Select(hv, li.at(ts.term, j))),
                               patterns=[lo.at(out, j)]))
        eng.uf_cache[key] = out
    return V(KList(T.KMat), eng.uf_cache[key])


@spec('group_members')
def _group_members(eng, st, args, kwargs):
    from .values import KSetInt
    (g,) = args
    return V(KSetInt, eng.D.members(eng, st, g))


@spec('rank_in_group')
def _rank_in_group(eng, st, args, kwargs):
    r, g = args
    return BoolV(z3.Select(eng.D.members(eng, st, g), eng.as_int(r, st)))


@spec('my_rank')
def _my_rank(eng, st, args, kwargs):
    from .values import IntV
    eng.D.base_facts(eng)
    return IntV(eng.D.rank(eng, st))


@spec('world_size')
def _world_size(eng, st, args, kwargs):
    from .values import IntV
    eng.D.base_facts(eng)
    return IntV(eng.D.world(eng, st))


@spec('dist_initialized')
def _dist_initialized(eng, st, args, kwargs):
    eng.D.base_facts(eng)
    return BoolV(eng.D.initialized(eng, st))


@spec('trace')
def _trace(eng, st, args, kwargs):
    return eng.ghost_get(st, 'trace', eng.D.KTrace)


@spec('event')
def _event(eng, st, args, kwargs):
    from .values import TupV, IntV, coerce, KRef as _KRef
    kind, g, root, n, dt = args
    return TupV([IntV(eng.as_int(kind, st)), coerce(g, _KRef('ProcessGroup')), IntV(eng.as_int(root, st)),
                 IntV(eng.as_int(n, st)), V(eng.D.KEvent.items[4], coerce(dt, _KRef('dtype')).term if dt.kind != eng.D.KEvent.items[4] else dt.term)])


for _n, _s in [('bcast', 'IIIM'), ('tri_numel', 'III'), ('gather2', 'MMMM'), ('put2', 'MMMMM'), ('row', 'MIM'),
               ('triuidx', 'IIIM'), ('uninit', 'IM'), ('elem', 'MIIR'), ('velem', 'MIR')]:
    _mat_op(_n, _s)


def _helper_fn(name):
    @spec(name)
    def fn(eng, st, args, kwargs, name=name):
        from . import tensors as T
        h, v, sh = args
        f = T.mf(name, z3.IntSort(), T.M, T.LS, T.M)
        return V(T.KMat, f(h.term, _as_mat(eng, st, v), sh.term))
    return fn


_helper_fn('helper_a_factor')
_helper_fn('helper_g_factor')


@spec('bytes_of')
def _bytes_of(eng, st, args, kwargs):
    """nelement * element_size of a tensor (0 for None)."""
    from . import tensors as T
    from .values import IntV
    (t,) = args
    tt = V(T.KRef('Tensor'), t.term)
    n = eng.int_mul(T.numel(eng, T.tf(eng, st, tt, 'shape').term), T.esize(T.tf(eng, st, tt, 'dtype').term))
    return IntV(z3.If(t.term == 0, 0, n))


@spec('combined_grad')
def _combined_grad(eng, st, args, kwargs):
    """Combined (weight | bias) gradient matrix a module helper builds from the module's current gradients."""
    from . import tensors as T
    (h,) = args
    mod = eng.read_field(st, h, 'module', cls='ModuleHelper')
    w = eng.read_field(st, mod, 'weight', cls='Module')
    b = eng.read_field(st, mod, 'bias', cls='Module')
    wg = eng.read_field(st, w, 'grad', cls='Tensor')
    wv = T.tv(eng, st, wg)
    wsh = T.tf(eng, st, wg, 'shape').term
    bg = eng.read_field(st, V(T.KRef('Tensor'), z3.If(b.term == 0, w.term, b.term)), 'grad', cls='Tensor')
    bv = T.tv(eng, st, V(T.KRef('Tensor'), z3.If(bg.term == 0, wg.term, bg.term)))
    f = T.mf('combined', z3.IntSort(), T.M, T.LS, z3.BoolSort(), T.M, T.M)
    return V(T.KMat, f(eng.class_of(st, h), wv, wsh, b.term != 0, z3.If(b.term != 0, bv, wv)))


@spec('is_fresh')
def _is_fresh(eng, st, args, kwargs):
    """The object was allocated during this call."""
    (x,) = args
    return BoolV(x.term >= eng._spec_old.nxt)


@spec('nonneg')
def _nonneg(eng, st, args, kwargs):
    from . import theory as TH
    _, syms = TH.groups()
    return BoolV(syms['nonneg'](_as_mat(eng, st, args[0])))


# ---- WorkAssignment seen from its caller: results are pure functions of (assignment, arguments)
def _wa_fn(name, nargs, res):
    @spec(name)
    def fn(eng, st, args, kwargs, name=name, nargs=nargs, res=res):
        from .values import StrS, IntV, KRef as _KR
        sorts = [z3.IntSort()] + [StrS] * nargs
        rs = {'int': z3.IntSort(), 'bool': z3.BoolSort(), 'group': z3.IntSort()}[res]
        f = eng.uf_cache.setdefault(name, z3.Function(name, *sorts, rs))
        t = f(args[0].term, *[a.term for a in args[1:1 + nargs]])
        if res == 'int':
            return IntV(t)
        if res == 'bool':
            return BoolV(t)
        return V(_KR('ProcessGroup'), t)
    return fn


_wa_fn('wa_inv_worker', 2, 'int')
_wa_fn('wa_is_grad_worker', 1, 'bool')
_wa_fn('wa_src_grad_worker', 1, 'int')
_wa_fn('wa_factor_group', 2, 'group')
_wa_fn('wa_worker_group', 1, 'group')
_wa_fn('wa_receiver_group', 1, 'group')
_wa_fn('wa_broadcast_gradients', 0, 'bool')
_wa_fn('wa_broadcast_inverses', 0, 'bool')


@spec('frame_same')
def _frame_same(eng, st, args, kwargs):
    """frame_same('Class.field', [excluded objects]): every object that existed at function entry, other
    than the excluded ones, has the same value of that field as at function entry."""
    key = args[0].meta
    excl = []
    if len(args) > 1:
        from .values import tuple_items, KTuple, KList, ListOps
        x = args[1]
        if isinstance(x.kind, KTuple):
            excl = [i.term for i in tuple_items(x)]
        else:
            cs = ListOps(x.kind)._concrete(x.term)
            if cs is None:
                raise SpecError('frame_same: exclusion list must have concrete length')
            excl = cs
    cur = st.heap.get(key)
    old = eng._spec_old.heap.get(key, eng.old_heap.get(key))
    if cur is None or old is None or z3.eq(cur, old):
        return BoolV(True)
    r = z3.Int(fresh_name_('fr'))
    cond = z3.And(r > 0, r < eng._spec_old.nxt, *[r != e for e in excl])
    from .values import forall as _forall
    return BoolV(_forall([r], z3.Implies(cond, z3.Select(cur, r) == z3.Select(old, r)), patterns=[z3.Select(cur, r)]))


def fresh_name_(b):
    from .values import fresh_name
    return fresh_name(b)


@spec('sqrt_of')
def _sqrt_of(eng, st, args, kwargs):
    from .builtins import sqrt_term
    from .values import RealV
    _, _, r = eng.num_parts(args[0], st)
    return RealV(sqrt_term(eng, st, r))


@spec('clip_sum')
def _clip_sum(eng, st, args, kwargs):
    from .values import RealV
    p, i = args
    f = eng.uf_cache.setdefault('clip_sum', z3.Function('clip_sum', z3.IntSort(), z3.IntSort(), z3.RealSort()))
    return RealV(f(p.term, eng.as_int(i, st)))


@spec('msum')
def _msum(eng, st, args, kwargs):
    """msum(p, key, j): ghost running sum of the `key` entry of layer.memory_usage() over the first j layers of p
    (defined by the `definitions` of the contract that uses it)."""
    from .values import IntV, KStr, coerce
    p, k, j = args
    f = eng.uf_cache.setdefault('msum', z3.Function('msum', z3.IntSort(), KStr.sort(), z3.IntSort(), z3.IntSort()))
    return IntV(f(p.term, coerce(k, KStr).term, eng.as_int(j, st)))
