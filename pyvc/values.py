"""Value model of PyVC: kinds (static type descriptors), symbolic values, z3 sorts.

Every symbolic value `V` has a kind and a z3 term, so that any value can be
stored in a heap field, put in a list, or merged at a control-flow join with
`If`.  Python objects of repository / library classes are references
(integers, 0 = None) into a field-indexed heap.
"""
from __future__ import annotations

import itertools
import z3

_ctr = itertools.count()


def fresh_name(base='t'):
    return f'{base}!{next(_ctr)}'


def _has_bad_pattern_op(t, seen=None):
    seen = seen if seen is not None else set()
    stack = [t]
    while stack:
        x = stack.pop()
        if x.get_id() in seen:
            continue
        seen.add(x.get_id())
        if z3.is_app(x):
            k = x.decl().kind()
            if k in (z3.Z3_OP_ITE, z3.Z3_OP_AND, z3.Z3_OP_OR, z3.Z3_OP_NOT, z3.Z3_OP_IMPLIES, z3.Z3_OP_EQ,
                     z3.Z3_OP_LE, z3.Z3_OP_LT, z3.Z3_OP_GE, z3.Z3_OP_GT, z3.Z3_OP_DISTINCT):
                return True
        stack.extend(x.children())
    return False


_ARITH_KINDS = None


def pick_patterns(vs, body, limit=4):
    """Choose E-matching triggers: smallest sub-terms (uninterpreted applications / selects / accessors)
    that mention the bound variables only through non-arithmetic positions.  Avoids the degenerate
    triggers z3 infers for index arithmetic such as `(* (- 1) q)`."""
    global _ARITH_KINDS
    if _ARITH_KINDS is None:
        _ARITH_KINDS = {z3.Z3_OP_ADD, z3.Z3_OP_SUB, z3.Z3_OP_MUL, z3.Z3_OP_UMINUS, z3.Z3_OP_DIV, z3.Z3_OP_IDIV,
                        z3.Z3_OP_MOD, z3.Z3_OP_REM, z3.Z3_OP_TO_REAL, z3.Z3_OP_TO_INT, z3.Z3_OP_LE, z3.Z3_OP_LT,
                        z3.Z3_OP_GE, z3.Z3_OP_GT, z3.Z3_OP_EQ, z3.Z3_OP_DISTINCT, z3.Z3_OP_ITE, z3.Z3_OP_AND,
                        z3.Z3_OP_OR, z3.Z3_OP_NOT, z3.Z3_OP_IMPLIES, z3.Z3_OP_IFF if hasattr(z3, 'Z3_OP_IFF') else -1,
                        z3.Z3_OP_STORE, z3.Z3_OP_TRUE, z3.Z3_OP_FALSE}
    vids = {v.get_id() for v in vs}
    info = {}      # id -> (vars mentioned cleanly as frozenset, clean: bool)

    def visit(t):
        i = t.get_id()
        if i in info:
            return info[i]
        if i in vids:
            info[i] = (frozenset([i]), True)
            return info[i]
        if z3.is_quantifier(t) or not z3.is_app(t):
            info[i] = (frozenset(), False)
            return info[i]
        kids = [visit(c) for c in t.children()]
        mentioned = frozenset().union(*[k[0] for k in kids]) if kids else frozenset()
        k = t.decl().kind()
        clean = all(c[1] or not c[0] for c in kids) and k not in _ARITH_KINDS
        # children that mention a bound var must themselves be clean or the var
        clean = clean and all((c[1]) for c in kids if c[0])
        info[i] = (mentioned, clean)
        return info[i]

    cands = []
    stack, seen = [body], set()
    while stack:
        t = stack.pop()
        if t.get_id() in seen or z3.is_quantifier(t):
            continue
        seen.add(t.get_id())
        if z3.is_app(t):
            m, clean = visit(t)
            if clean and m and t.get_id() not in vids and t.num_args() > 0:
                cands.append((t, m))
            stack.extend(t.children())
    if not cands:
        return None
    import os
    if os.environ.get('PYVC_DEBUG') == '2' and '(keys out!' in body.sexpr():
        print('CANDS', [(c[0].sexpr()[:50].replace(chr(10), ' '), len(c[1])) for c in cands][:12])
        bs = body.sexpr()
        k = bs.index('(keys out!')
        print('BODYHAS', bs[max(0, k - 200):k + 120].replace(chr(10), ' '))
    full = [c for c in cands if c[1] == frozenset(vids)]
    full.sort(key=lambda c: len(c[0].sexpr()))
    if full:
        out, texts = [], set()
        for t, _ in full:
            tx = t.sexpr()
            if tx not in texts and not any(o.sexpr() in tx for o in out):
                out.append(t)
                texts.add(tx)
            if len(out) >= limit:
                break
        return out
    # multi-pattern covering all variables
    cands.sort(key=lambda c: len(c[0].sexpr()))
    chosen, covered = [], set()
    for t, m in cands:
        if not m <= covered:
            chosen.append(t)
            covered |= m
        if covered == vids:
            return [z3.MultiPattern(*chosen)] if len(chosen) > 1 else chosen
    return None


_qctr = itertools.count()


def _qid(pats, tag=''):
    head = ''
    try:
        p0 = pats[0]
        t = p0.children()[0] if isinstance(p0, z3.PatternRef) else p0
        head = t.decl().name()
        if head == 'select' and t.num_args():
            a = t.arg(0)
            head = 'sel_' + (a.decl().name() if z3.is_app(a) else '')
    except Exception:
        pass
    import re
    return re.sub(r'[^A-Za-z0-9_]', '_', f'q{next(_qctr)}_{tag}{head}')[:60]


def forall(vs, body, patterns=None, tag=''):
    """ForAll with explicit E-matching patterns where they are legal, inferred patterns otherwise."""
    if patterns:
        ok = True
        for p in patterns:
            terms = p.children() if isinstance(p, z3.PatternRef) else [p]
            if not isinstance(p, z3.PatternRef) and _has_bad_pattern_op(p):
                ok = False
        if ok:
            try:
                return z3.ForAll(vs, body, patterns=patterns, qid=_qid(patterns, tag))
            except z3.Z3Exception:
                pass
    try:
        pats = pick_patterns(vs, body)
        import os
        if os.environ.get('PYVC_DEBUG'):
            print('PICK', [p.sexpr()[:90].replace(chr(10), ' ') for p in (pats or [])])
        if pats:
            return z3.ForAll(vs, body, patterns=pats, qid=_qid(pats, tag))
    except z3.Z3Exception as ex:
        import os
        if os.environ.get('PYVC_DEBUG'):
            print('pick_patterns failed:', ex, [p.sexpr()[:100] for p in (pats or [])])
    return z3.ForAll(vs, body, qid=f'q{next(_qctr)}_{tag}auto')


# --------------------------------------------------------------------------- sorts
StrS = z3.DeclareSort('Str')
_str_consts: dict[str, z3.ExprRef] = {}


def str_const(s: str):
    if s not in _str_consts:
        _str_consts[s] = z3.Const('str:' + s, StrS)
    return _str_consts[s]


def str_distinct_axioms():
    cs = list(_str_consts.values())
    return [z3.Distinct(*cs)] if len(cs) > 1 else []


_Dyn = z3.Datatype('Dyn')
_Dyn.declare('none')
_Dyn.declare('int', ('ival', z3.IntSort()))
_Dyn.declare('real', ('rval', z3.RealSort()))
_Dyn.declare('bool', ('bval', z3.BoolSort()))
_Dyn.declare('str', ('sval', StrS))
_Dyn.declare('ref', ('addr', z3.IntSort()))
_Dyn.declare('fn', ('fid', z3.IntSort()))
DynS = _Dyn.create()

SetIntS = z3.ArraySort(z3.IntSort(), z3.BoolSort())


# --------------------------------------------------------------------------- kinds
class Kind:
    name = '?'

    def sort(self):
        raise NotImplementedError

    def __repr__(self):
        return self.name

    def __eq__(self, o):
        return isinstance(o, Kind) and repr(self) == repr(o)

    def __hash__(self):
        return hash(repr(self))


class _Prim(Kind):
    def __init__(self, name, sort):
        self.name = name
        self._sort = sort

    def sort(self):
        return self._sort


KInt = _Prim('Int', z3.IntSort())
KReal = _Prim('Real', z3.RealSort())
KBool = _Prim('Bool', z3.BoolSort())
KStr = _Prim('Str', StrS)
KDyn = _Prim('Dyn', DynS)
KNone = _Prim('None', z3.IntSort())     # the single value None (term is 0)
KFn = _Prim('Fn', z3.IntSort())         # callable identified by an integer id
KSetInt = _Prim('Set[Int]', SetIntS)    # (frozen)set of ints as a characteristic predicate


class KRef(Kind):
    """Reference to a heap object; `cls` is a static class hint (may be None).  `classes` optionally
    lists the dynamic classes a field of unknown static class may hold (a type invariant, e.g.
    Tensor | Future | None)."""

    def __init__(self, cls=None, classes=None):
        self.cls = cls
        self.classes = tuple(classes) if classes else None
        self.name = f'Ref[{cls}]' if cls else ('Ref' if not classes else 'Ref[' + '|'.join(classes) + ']')

    def sort(self):
        return z3.IntSort()


_list_sorts: dict[str, object] = {}


class KList(Kind):
    """list / tuple of unknown length: (len, arr: Int -> T).  Only indices in [0, len) matter."""

    def __init__(self, elem: Kind):
        self.elem = elem
        self.name = f'List[{elem!r}]'

    def _dt(self):
        if self.name not in _list_sorts:
            es = self.elem.sort()
            dt = z3.Datatype('List_' + str(len(_list_sorts)))
            dt.declare('mk', ('len', z3.IntSort()), ('arr', z3.ArraySort(z3.IntSort(), es)))
            _list_sorts[self.name] = dt.create()
        return _list_sorts[self.name]

    def sort(self):
        return self._dt()


_tuple_sorts: dict[str, tuple] = {}


class KTuple(Kind):
    def __init__(self, *items: Kind):
        self.items = tuple(items)
        self.name = 'Tuple[' + ','.join(map(repr, items)) + ']'

    def _dt(self):
        if self.name not in _tuple_sorts:
            _ = [k.sort() for k in self.items]
            dt = z3.Datatype('Tup_' + str(len(_tuple_sorts)))
            dt.declare('mk', *[(f'f{i}', k.sort()) for i, k in enumerate(self.items)])
            _tuple_sorts[self.name] = dt.create()
        return _tuple_sorts[self.name]

    def sort(self):
        return self._dt()


_dict_sorts: dict[str, object] = {}


class KDict(Kind):
    """Insertion-ordered dict: (n, keys: Int->K, idx: K->Int, vals: K->V).

    k in d  <=>  0 <= idx[k] < n and keys[idx[k]] == k.
    Representation invariant (assumed for incoming dicts, preserved by the
    operations): forall 0 <= i < n: idx[keys[i]] == i  (keys are distinct).
    """

    def __init__(self, key: Kind, val: Kind, default=None):
        self.key, self.val = key, val
        self.default = default           # python-level constant for defaultdict(factory), else None
        self.name = f'Dict[{key!r},{val!r}]'

    def _dt(self):
        if self.name not in _dict_sorts:
            ks, vs = self.key.sort(), self.val.sort()     # create component sorts first (naming)
            dt = z3.Datatype('Dict_' + str(len(_dict_sorts)))
            dt.declare(
                'mk', ('n', z3.IntSort()),
                ('keys', z3.ArraySort(z3.IntSort(), self.key.sort())),
                ('idx', z3.ArraySort(self.key.sort(), z3.IntSort())),
                ('vals', z3.ArraySort(self.key.sort(), self.val.sort())),
            )
            _dict_sorts[self.name] = dt.create()
        return _dict_sorts[self.name]

    def sort(self):
        return self._dt()


_record_sorts: dict[str, object] = {}


class KRecord(Kind):
    """dict used as a record: a fixed set of constant string keys, each optional, with its own value kind
    (e.g. the K-FAC state dict).  Sort: tuple of (present_i: Bool, value_i)."""

    def __init__(self, fields: dict):
        self.fields = dict(fields)
        self.order = list(fields)
        self.name = 'Record{' + ','.join(f'{k}:{v!r}' for k, v in fields.items()) + '}'

    def _dt(self):
        if self.name not in _record_sorts:
            sorts = [(k, self.fields[k].sort()) for k in self.order]
            dt = z3.Datatype('Rec_' + str(len(_record_sorts)))
            args = []
            for i, (k, srt) in enumerate(sorts):
                args += [(f'p{i}', z3.BoolSort()), (f'v{i}', srt)]
            dt.declare('mk', *args)
            _record_sorts[self.name] = dt.create()
        return _record_sorts[self.name]

    def sort(self):
        return self._dt()

    def present(self, term, key):
        i = self.order.index(key)
        return self._dt().accessor(0, 2 * i)(term)

    def value(self, term, key):
        i = self.order.index(key)
        return self._dt().accessor(0, 2 * i + 1)(term)

    def with_field(self, term, key, present, value_term):
        dt = self._dt()
        args = []
        for i, k in enumerate(self.order):
            if k == key:
                args += [present, value_term]
            else:
                args += [dt.accessor(0, 2 * i)(term), dt.accessor(0, 2 * i + 1)(term)]
        return dt.mk(*args)

    def empty(self):
        dt = self._dt()
        args = []
        for i, k in enumerate(self.order):
            args += [z3.BoolVal(False), z3.Const(fresh_name('recjunk'), self.fields[k].sort())]
        return dt.mk(*args)


# --------------------------------------------------------------------------- values
class V:
    """A symbolic value: kind + z3 term."""
    __slots__ = ('kind', 'term', 'meta')

    def __init__(self, kind: Kind, term, meta=None):
        self.kind = kind
        self.term = term
        self.meta = meta   # engine-level payload (closures, modules, static tuples...)

    def __repr__(self):
        return f'V<{self.kind!r}:{self.term}>'


def mk(kind: Kind, term, meta=None):
    return V(kind, term, meta)


def IntV(t):
    return V(KInt, z3.IntVal(t) if isinstance(t, int) else t)


def RealV(t):
    if isinstance(t, (int, float)):
        t = z3.RealVal(repr(float(t)) if isinstance(t, float) else t)
    return V(KReal, t)


def BoolV(t):
    return V(KBool, z3.BoolVal(t) if isinstance(t, bool) else t)


def StrV(s):
    return V(KStr, str_const(s) if isinstance(s, str) else s, meta=s if isinstance(s, str) else None)


NONE = V(KNone, z3.IntVal(0))


def RefV(t, cls=None):
    return V(KRef(cls), t)


def DynV(t):
    return V(KDyn, t)


def fresh(kind: Kind, base='v') -> V:
    return V(kind, z3.Const(fresh_name(base), kind.sort()))


# ---- static tuples: kept at the Python level (meta = list of V) with a lazily built term
def TupV(items):
    items = list(items)
    kind = KTuple(*[i.kind for i in items])
    term = kind.sort().mk(*[i.term for i in items])
    return V(kind, term, meta=items)


def tuple_items(v: V):
    assert isinstance(v.kind, KTuple)
    if v.meta is not None:
        return v.meta
    dt = v.kind.sort()
    return [V(k, dt.accessor(0, i)(v.term)) for i, k in enumerate(v.kind.items)]


# ---- Dyn boxing
def to_dyn(v: V) -> V:
    k = v.kind
    if k == KDyn:
        return v
    if k == KInt:
        return DynV(DynS.int(v.term))
    if k == KReal:
        return DynV(DynS.real(v.term))
    if k == KBool:
        return DynV(DynS.bool(v.term))
    if k == KStr:
        return DynV(DynS.str(v.term))
    if k == KNone:
        return DynV(DynS.none)
    if isinstance(k, KRef):
        return DynV(z3.If(v.term == 0, DynS.none, DynS.ref(v.term)))
    if k == KFn:
        return V(KDyn, DynS.fn(v.term), meta=v.meta)
    raise Unsupported(f'cannot box kind {k!r} into Dyn')


def dyn_is_num(t):
    return z3.Or(DynS.is_int(t), DynS.is_real(t), DynS.is_bool(t))


def dyn_to_real(t):
    return z3.If(DynS.is_int(t), z3.ToReal(DynS.ival(t)),
                 z3.If(DynS.is_bool(t), z3.If(DynS.bval(t), z3.RealVal(1), z3.RealVal(0)),
                       DynS.rval(t)))


def dyn_to_int(t):
    """Integer value of an int/bool Dyn."""
    return z3.If(DynS.is_bool(t), z3.If(DynS.bval(t), z3.IntVal(1), z3.IntVal(0)), DynS.ival(t))


def dyn_is_intlike(t):
    return z3.Or(DynS.is_int(t), DynS.is_bool(t))


class Unsupported(Exception):
    """Construct outside the supported subset: the function is reported as unsupported."""


class SpecError(Exception):
    """Malformed contract."""


class FnChoice:
    """A callable that is `a` where cond holds and `b` otherwise (two known functions merged at a join)."""

    def __init__(self, cond, a, b):
        self.cond, self.a, self.b = cond, a, b


# ---- merging at joins
def merge(c, a: V, b: V) -> V:
    """ite(c, a, b) on values."""
    if a is b:
        return a
    ka, kb = a.kind, b.kind
    if ka == kb:
        if z3.eq(a.term, b.term):
            return a if a.meta is not None or b.meta is None else b
        meta = None
        if isinstance(ka, KTuple) and a.meta is not None and b.meta is not None:
            items = [merge(c, x, y) for x, y in zip(a.meta, b.meta)]
            return TupV(items)
        if ka == KFn and a.meta is not b.meta:
            meta = FnChoice(c, a, b) if (a.meta is not None and b.meta is not None) else None
        return V(ka, z3.If(c, a.term, b.term), meta)
    if isinstance(ka, KList) and isinstance(kb, KList):
        if a.meta == 'empty':
            return merge(c, V(kb, ListOps(kb).empty()), b)
        if b.meta == 'empty':
            return merge(c, a, V(ka, ListOps(ka).empty()))
    # None vs Ref
    if ka == KNone and isinstance(kb, KRef):
        return V(kb, z3.If(c, z3.IntVal(0), b.term))
    if kb == KNone and isinstance(ka, KRef):
        return V(ka, z3.If(c, a.term, z3.IntVal(0)))
    if isinstance(ka, KRef) and isinstance(kb, KRef):
        return V(KRef(ka.cls if ka.cls == kb.cls else None), z3.If(c, a.term, b.term))
    # Int vs Real -> Dyn (python keeps the distinction); everything boxable -> Dyn
    try:
        da, db = to_dyn(a), to_dyn(b)
    except Unsupported:
        raise Unsupported(f'cannot merge values of kinds {ka!r} and {kb!r}')
    return DynV(z3.If(c, da.term, db.term))


def coerce(v: V, kind: Kind) -> V:
    """Convert v to `kind` where this is a lossless re-representation."""
    if v.kind == kind:
        return v
    if kind == KDyn:
        return to_dyn(v)
    if isinstance(kind, KRef) and (isinstance(v.kind, KRef) or v.kind == KNone):
        return V(kind, v.term)
    if kind == KReal and v.kind == KInt:
        # NOTE: only used for declared float fields that receive an int literal
        return V(KReal, z3.ToReal(v.term))
    if v.kind == KDyn:
        t = v.term
        if kind == KInt:
            return V(KInt, DynS.ival(t))
        if kind == KReal:
            return V(KReal, DynS.rval(t))
        if kind == KBool:
            return V(KBool, DynS.bval(t))
        if kind == KStr:
            return V(KStr, DynS.sval(t))
        if isinstance(kind, KRef):
            return V(kind, z3.If(DynS.is_none(t), z3.IntVal(0), DynS.addr(t)))
        if kind == KFn:
            return V(KFn, DynS.fid(t), meta=v.meta)
    if isinstance(kind, KTuple) and isinstance(v.kind, KTuple) and len(kind.items) == len(v.kind.items):
        return TupV([coerce(x, k) for x, k in zip(tuple_items(v), kind.items)])
    if isinstance(kind, KDict) and isinstance(v.kind, KDict) and v.meta == 'emptydict':
        return V(kind, DictOps(kind).empty())
    if isinstance(kind, KDict) and isinstance(v.kind, KDict) and repr(kind) == repr(v.kind):
        return V(kind, v.term, v.meta)
    if isinstance(kind, KList) and isinstance(v.kind, KList) and v.meta == 'empty':
        return V(kind, ListOps(kind).empty())
    raise Unsupported(f'cannot coerce {v.kind!r} to {kind!r}')


# ---- list helpers
class ListOps:
    _funcs: dict = {}
    axioms: list = []          # global axioms of the canonical list functions (added to every query)

    def __init__(self, kind: KList):
        self.kind = kind
        self.dt = kind.sort()
        self.len = self.dt.accessor(0, 0)
        self.arr = self.dt.accessor(0, 1)

    def mk(self, n, arr):
        return self.dt.mk(n, arr)

    def at(self, x, i):
        return z3.Select(self.arr(x), i)

    def empty(self):
        key = ('empty', self.kind.name)
        if key not in ListOps._funcs:
            ListOps._funcs[key] = z3.Const('emptyarr_' + self.dt.name(),
                                           z3.ArraySort(z3.IntSort(), self.kind.elem.sort()))
        return self.mk(z3.IntVal(0), ListOps._funcs[key])

    def append(self, x, v):
        return self.mk(self.len(x) + 1, z3.Store(self.arr(x), self.len(x), v))

    def from_items(self, terms):
        x = self.empty()
        for t in terms:
            x = self.append(x, z3.simplify(t))
        return x

    def _fn(self, name, *sorts):
        key = (name, self.kind.name)
        if key not in ListOps._funcs:
            ListOps._funcs[key] = z3.Function(f'{name}_{self.dt.name()}', *sorts)
            return ListOps._funcs[key], True
        return ListOps._funcs[key], False

    def _concrete(self, x, maxn=8):
        """If the list has a small concrete length return its element terms (canonical form)."""
        n = z3.simplify(self.len(x))
        if z3.is_int_value(n) and 0 <= n.as_long() <= maxn:
            return [z3.simplify(self.at(x, z3.IntVal(i))) for i in range(n.as_long())]
        return None

    def concat(self, x, y):
        cx, cy = self._concrete(x), self._concrete(y)
        if cx is not None and cy is not None:
            return self.from_items(cx + cy)
        L = self.dt
        f, new = self._fn('concat', L, L, L)
        if new:
            a, b = z3.Consts('cx cy', L)
            i = z3.Int('ci')
            ListOps.axioms.append(z3.ForAll([a, b], self.len(f(a, b)) == self.len(a) + self.len(b),
                                            patterns=[f(a, b)]))
            ListOps.axioms.append(z3.ForAll([a, b, i], z3.And(
                z3.Implies(z3.And(i >= 0, i < self.len(a)), self.at(f(a, b), i) == self.at(a, i)),
                z3.Implies(z3.And(i >= self.len(a), i < self.len(a) + self.len(b)),
                           self.at(f(a, b), i) == self.at(b, i - self.len(a)))),
                patterns=[self.at(f(a, b), i)]))
        return f(x, y)

    def slice(self, x, a, n):
        nn, aa = z3.simplify(n), z3.simplify(a)
        if z3.is_int_value(nn) and z3.is_int_value(aa) and 0 <= nn.as_long() <= 8:
            return self.from_items([z3.simplify(self.at(x, z3.IntVal(aa.as_long() + i))) for i in range(nn.as_long())])
        L = self.dt
        f, new = self._fn('slice', L, z3.IntSort(), z3.IntSort(), L)
        if new:
            l = z3.Const('sx', L)
            a_, n_, i = z3.Ints('sa sn si')
            ListOps.axioms.append(z3.ForAll([l, a_, n_], self.len(f(l, a_, n_)) == z3.If(n_ > 0, n_, 0),
                                            patterns=[f(l, a_, n_)]))
            ListOps.axioms.append(z3.ForAll([l, a_, n_, i], z3.Implies(
                z3.And(i >= 0, i < n_), self.at(f(l, a_, n_), i) == self.at(l, a_ + i)),
                patterns=[self.at(f(l, a_, n_), i)]))
        return f(x, a, n)

    def contains(self, x, v):
        L = self.dt
        f, new = self._fn('contains', L, self.kind.elem.sort(), z3.BoolSort())
        g, _ = self._fn('indexof', L, self.kind.elem.sort(), z3.IntSort())
        if new:
            l = z3.Const('kx', L)
            e = z3.Const('ke', self.kind.elem.sort())
            i = z3.Int('ki')
            ListOps.axioms.append(z3.ForAll([l, e], z3.Implies(f(l, e), z3.And(
                g(l, e) >= 0, g(l, e) < self.len(l), self.at(l, g(l, e)) == e)), patterns=[f(l, e)]))
            ListOps.axioms.append(z3.ForAll([l, e, i], z3.Implies(
                z3.And(i >= 0, i < self.len(l), self.at(l, i) == e), f(l, e)),
                patterns=[z3.MultiPattern(f(l, e), self.at(l, i))]))
        return f(x, v)

    def eq(self, x, y):
        i = z3.Int(fresh_name('li'))
        return z3.And(self.len(x) == self.len(y),
                      forall([i], z3.Implies(z3.And(i >= 0, i < self.len(x)),
                                             self.at(x, i) == self.at(y, i)),
                             patterns=[self.at(x, i)]))


# ---- dict helpers
class DictOps:
    def __init__(self, kind: KDict):
        self.kind = kind
        self.dt = kind.sort()
        self.n = self.dt.accessor(0, 0)
        self.keys = self.dt.accessor(0, 1)
        self.idx = self.dt.accessor(0, 2)
        self.vals = self.dt.accessor(0, 3)

    def mk(self, n, keys, idx, vals):
        return self.dt.mk(n, keys, idx, vals)

    def empty(self):
        K, Vs = self.kind.key.sort(), self.kind.val.sort()
        return self.mk(z3.IntVal(0), z3.Const(fresh_name('ek'), z3.ArraySort(z3.IntSort(), K)),
                       z3.K(K, z3.IntVal(-1)),
                       z3.Const(fresh_name('ev'), z3.ArraySort(K, Vs)))

    def contains(self, d, k):
        i = z3.Select(self.idx(d), k)
        return z3.And(i >= 0, i < self.n(d), z3.Select(self.keys(d), i) == k)

    def get(self, d, k):
        return z3.Select(self.vals(d), k)

    def set(self, d, k, v):
        has = self.contains(d, k)
        n = self.n(d)
        return z3.If(
            has,
            self.mk(n, self.keys(d), self.idx(d), z3.Store(self.vals(d), k, v)),
            self.mk(n + 1, z3.Store(self.keys(d), n, k), z3.Store(self.idx(d), k, n),
                    z3.Store(self.vals(d), k, v)),
        )

    def rep_inv(self, d):
        i = z3.Int(fresh_name('i'))
        body = z3.Implies(z3.And(i >= 0, i < self.n(d)),
                          z3.Select(self.idx(d), z3.Select(self.keys(d), i)) == i)
        return [self.n(d) >= 0,
                forall([i], body, patterns=[z3.Select(self.keys(d), i)])]
