"""Contract declarations (side-car; nothing here touches /repo).

A contract file is an ordinary Python module that calls `contract(...)`,
`klass(...)` and `spec(...)`.  Clause bodies are *strings in Python expression
syntax*; the prover evaluates them symbolically with the same evaluator that
executes the repository code (in spec mode), the replayer evaluates them with
CPython.
"""
from __future__ import annotations

import ast
from dataclasses import dataclass, field

from . import values as Vm


@dataclass
class Clause:
    label: str
    text: str
    props: tuple = ()
    node: ast.AST | None = None

    bounded: bool = False
    ghost: bool = False               # mentions ghost fields: not evaluable at run time
    composed: bool = False

    def __post_init__(self):
        if self.label.endswith('[composed]'):
            # not proved in the function's own body: composition of other proved clauses (named next to the
            # clause) and a stated assumption; assumed at call sites and listed as an assumption in evidence
            self.label = self.label[: -len('[composed]')]
            self.composed = True
        if self.label.endswith('[ghost]'):
            self.label = self.label[: -len('[ghost]')]
            self.ghost = True
        if self.label.endswith('[bounded]'):
            self.label = self.label[: -len('[bounded]')]
            self.bounded = True
        if self.node is None:
            self.node = ast.parse(self.text.strip(), mode='eval').body


@dataclass
class LoopSpec:
    invariants: list = field(default_factory=list)   # Clause
    index: str | None = None                          # name of ghost index variable visible in invariants
    modifies: list = field(default_factory=list)      # extra heap keys / locals havocked
    decreases: str | None = None
    ghost_pre: list = field(default_factory=list)
    unfold: list = field(default_factory=list)      # parameterised definitions instantiated at the loop index
    hints: list = field(default_factory=list)       # Clause: proved at the end of the body (index = this iteration), then assumed
    cases: list = field(default_factory=list)       # expressions (over the iteration's locals) the body obligations are split on
    pre_hints: list = field(default_factory=list)   # Clause: proved at the START of the body (loop target bound), then assumed


@dataclass
class Contract:
    key: str
    props: tuple
    params: dict                      # name -> Kind (overrides annotation-derived kinds)
    closure: dict                     # captured variables of nested functions: name -> Kind
    result: Vm.Kind | None
    requires: list
    ensures: list
    raises: list                      # (ExcName, Clause)  two-sided
    may_raise: list                   # ExcName list: allowed without a condition (one-sided)
    modifies: list                    # strings: 'self._x', '*.field', 'fresh'
    loops: dict                       # ordinal (str like '0', '0.0') -> LoopSpec
    mode: str = 'contract'            # 'contract' | 'inline'
    self_cls: str | None = None
    ghost: list = field(default_factory=list)
    lets: dict = field(default_factory=dict)   # name -> expression text (spec-level abbreviations)
    trusted: bool = False             # contract used at call sites but body not verified (external)
    note: str = ''
    float_mode: str = 'R'
    covers: list = field(default_factory=list)  # Clauses that must be satisfiable together with requires
    locals: dict = field(default_factory=dict)  # kinds of locals initialised from empty literals
    exsures: list = field(default_factory=list) # (ExcName, Clause): must hold at every exit raising ExcName
    unknown_may_raise: bool = False             # calls of unknown callables may raise 'Exception'
    hints: list = field(default_factory=list)   # proved-then-assumed lemmas at function entry (ghost)
    ranks: dict = field(default_factory=dict)   # tensor expression -> rank: its shape list is canonical on entry
    definitions: list = field(default_factory=list)  # definitional axioms of ghost functions (assumed; recorded)
    class_map: dict = field(default_factory=dict)    # static class instantiation, e.g. KFACBaseLayer -> KFACEigenLayer
    theories: tuple = ()                             # opt-in background facts (e.g. 'strided_ranges')
    ghost_sets: list = field(default_factory=list)   # [(target 'obj.ghost_field', value expr)]: ghost update at normal exit
    fresh_result: bool = False                        # the returned container is newly built (callers may mutate it)
    call_demands: dict = field(default_factory=dict)  # callee qualname -> [(label, expr over the callee's parameters and this
                                                      # contract's lets)]: extra obligations at every call of that callee


REGISTRY: dict[str, Contract] = {}
FIELDS: dict[tuple, Vm.Kind] = {}      # (class, field) -> Kind
LIB_CLASSES: dict[str, dict] = {}      # library classes (Tensor, Future, ...): name -> info
SPEC_FUNCS: dict[str, object] = {}     # name -> python callable(engine, state, *V) -> V
GLOBALS: dict[tuple, Vm.Kind] = {}     # (module, name) -> Kind for module-level mutable globals


def _clauses(items, props=()):
    out = []
    for i, it in enumerate(items or []):
        if isinstance(it, Clause):
            out.append(it)
        elif isinstance(it, str):
            out.append(Clause(f'c{i}', it, props))
        else:
            label, text, *rest = it
            out.append(Clause(label, text, tuple(rest[0]) if rest else props))
    return out


def contract(key, *, props=(), params=None, closure=None, result=None, requires=(), ensures=(),
             raises=(), may_raise=(), modifies=(), loops=None, mode='contract', self_cls=None,
             lets=None, trusted=False, note='', float_mode='R', covers=(), locals=None, exsures=(),
             unknown_may_raise=False, hints=(), ranks=None, definitions=(), class_map=None, theories=(),
             ghost_sets=(), fresh_result=False, call_demands=None):
    props = tuple(props)
    lp = {}
    for k, v in (loops or {}).items():
        if isinstance(v, LoopSpec):
            lp[str(k)] = v
        else:
            lp[str(k)] = LoopSpec(
                invariants=_clauses(v.get('invariants', []), props),
                index=v.get('index'), modifies=list(v.get('modifies', [])),
                decreases=v.get('decreases'), unfold=list(v.get('unfold', [])),
                hints=_clauses(v.get('hints', []), props), cases=list(v.get('cases', [])),
                pre_hints=_clauses(v.get('pre_hints', []), props),
            )
    c = Contract(
        key=key, props=props, params=dict(params or {}), closure=dict(closure or {}),
        result=result, requires=_clauses(requires, props), ensures=_clauses(ensures, props),
        raises=[(e, Clause(f'raises:{e}', t, props)) for e, t in raises],
        may_raise=list(may_raise), modifies=list(modifies), loops=lp, mode=mode,
        self_cls=self_cls, lets=dict(lets or {}), trusted=trusted, note=note,
        float_mode=float_mode, covers=_clauses(covers, props), locals=dict(locals or {}),
        exsures=[(e, Clause(f'exsures:{e}:{l}', t, props)) for e, l, t in exsures],
        unknown_may_raise=unknown_may_raise, hints=_clauses(hints, props), ranks=dict(ranks or {}),
        definitions=_clauses(definitions, props), class_map=dict(class_map or {}), theories=tuple(theories),
        ghost_sets=[tuple(g) for g in ghost_sets], fresh_result=fresh_result,
        call_demands={k: [Clause(l, t, props) for l, t in v] for k, v in (call_demands or {}).items()},
    )
    REGISTRY[key] = c
    return c


def klass(name, fields: dict, lib=False, bases=()):
    for f, k in fields.items():
        FIELDS[(name, f)] = k
    if lib:
        LIB_CLASSES[name] = {'bases': list(bases)}


def spec(name):
    def deco(fn):
        SPEC_FUNCS[name] = fn
        return fn
    return deco


@dataclass
class Lemma:
    key: str            # function key the lemma is attached to (for reporting)
    name: str
    props: tuple
    vars: dict
    hyps: list
    goal: str
    text: str = ''
    theory: tuple = ()
    steps: tuple = ()          # calc-style intermediate goals: each proved, then available to the next


LEMMAS: list = []
SPEC_DEFS: dict = {}     # name -> (param names, expression ast, text)


def lemma(key, name, *, props=(), vars=None, hyps=(), goal='True', text='', theory=(), steps=(), lets=None):
    lm = Lemma(key, name, tuple(props), dict(vars or {}), list(hyps), goal, text or goal, tuple(theory), tuple(steps))
    lm.lets = dict(lets or {})
    LEMMAS.append(lm)


OPAQUE_DEFS: set = set()


def spec_def(name, params, text, opaque=False):
    """Pure spec function defined by a Python expression over its parameters.
    opaque=True (boolean, heap-independent predicates over values only): calls become applications of an
    uninterpreted predicate with the defining equivalence as a quantified axiom triggered by the application --
    statements about unchanged values then carry over by congruence instead of by re-proving nested quantifiers."""
    SPEC_DEFS[name] = (list(params), ast.parse(text.strip(), mode='eval').body, text)
    if opaque:
        OPAQUE_DEFS.add(name)


def module_global(module, name, kind):
    GLOBALS[(module, name)] = kind


def export_contract(key):
    """Plain-data form of a contract for the run-time checker (other interpreter)."""
    c = REGISTRY[key]
    return {
        'key': key, 'props': list(c.props),
        'params': {k: repr(v) for k, v in c.params.items()},
        'closure': {k: repr(v) for k, v in c.closure.items()},
        'result': repr(c.result) if c.result is not None else None,
        'requires': [(cl.label, cl.text) for cl in c.requires if not cl.ghost],
        'ensures': [(cl.label, cl.text) for cl in c.ensures if not cl.ghost],
        'bounded_clauses': [cl.label for cl in c.ensures if cl.bounded],
        'mode': c.mode,
        'raises': [(e, cl.text) for e, cl in c.raises],
        'may_raise': list(c.may_raise), 'modifies': list(c.modifies),
        'self_cls': c.self_cls, 'float_mode': c.float_mode, 'lets': dict(c.lets),
        'spec_defs': {n: (p, t) for n, (p, _, t) in SPEC_DEFS.items()},
    }
