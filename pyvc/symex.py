"""Symbolic execution of repository functions into passive-form verification conditions.

One `Engine` verifies one function against its contract.  Expressions are
evaluated to symbolic values; branches are executed on copies of the state
and merged with `If` at joins; loops are cut by invariants; calls to
functions under contract use the callee's contract; calls to repository
functions without a contract are inlined; everything else must be a modelled
builtin (pyvc.builtins / trusted models) or the function is `unsupported`.
"""
from __future__ import annotations

import os
import ast
from dataclasses import dataclass, field

import z3

from . import values as Vm
from .values import (V, KInt, KReal, KBool, KStr, KDyn, KNone, KFn, KSetInt, KRef, KList, KTuple,
                     KDict, KRecord, IntV, RealV, BoolV, StrV, NONE, DynV, TupV, Unsupported, SpecError,
                     DynS, fresh, fresh_name, merge, coerce, to_dyn, tuple_items, DictOps, ListOps)
from .contracts import (REGISTRY, FIELDS, LIB_CLASSES, SPEC_FUNCS, SPEC_DEFS, GLOBALS, Contract, Clause)
from .extract import Repo, FuncInfo, body_without_docstring


# --------------------------------------------------------------------------- data
@dataclass
class Obligation:
    name: str
    hyps: list
    goal: object
    kind: str = 'ensures'
    props: tuple = ()
    text: str = ''
    status: str = 'pending'
    backend: str = ''
    time_s: float = 0.0
    model: object = None
    reason: str = ''
    cases: tuple = ()       # boolean terms to split on: the obligation is discharged once per truth assignment,
                            # with the terms replaced by constants and the formulas simplified (proof by cases)


@dataclass
class Exit:
    cond: object            # path condition
    kind: str               # 'raise'
    exc: str
    state: 'State'
    site: str = ''


class State:
    def __init__(self):
        self.env: dict[str, V] = {}
        self.heap: dict[str, object] = {}
        self.path = z3.BoolVal(True)
        self.nxt = None
        self.dead = False

    def copy(self):
        s = State()
        s.env = dict(self.env)
        s.heap = dict(self.heap)
        s.path = self.path
        s.nxt = self.nxt
        s.dead = self.dead
        return s

    def assign_from(self, o: 'State'):
        self.env, self.heap, self.path, self.nxt, self.dead = o.env, o.heap, o.path, o.nxt, o.dead

    def kill(self):
        self.dead = True
        self.path = z3.BoolVal(False)

    def add(self, c):
        self.path = z3.simplify(z3.And(self.path, c))
        if z3.is_false(self.path):
            self.dead = True


class _Return(Exception):
    pass


@dataclass
class Frame:
    fi: FuncInfo | None
    module: str
    self_cls: str | None
    returns: list = field(default_factory=list)   # (State, V)
    loop_prefix: str = ''
    loop_counter: int = 0
    contract: Contract | None = None
    breaks: list | None = None
    continues: list | None = None
    depth: int = 0


class Closure:
    """Known callable: repo function/lambda + captured environment (by reference)."""
    _ids = {}
    _next = [1000]

    def __init__(self, node, env, module, qual, self_v=None, fi=None, defaults_env=None):
        self.node, self.env, self.module, self.qual = node, env, module, qual
        self.self_v = self_v
        self.fi = fi
        Closure._next[0] += 1
        self.id = Closure._next[0]
        Closure._ids[self.id] = self

    def value(self):
        return V(KFn, z3.IntVal(self.id), meta=self)


class Pack:
    """Opaque *args / **kwargs pack of the function under verification, passed on unchanged."""

    def __init__(self, name):
        self.name = name
        self.star_items = True


class StaticDict:
    """Dict literal with distinct concrete string keys: iteration can be unrolled exactly."""

    def __init__(self, items):
        self.items = items


class Builtin:
    """Modelled builtin / library function: python callable (engine, st, args, kwargs) -> V."""

    def __init__(self, name, fn):
        self.name, self.fn = name, fn


class ModuleRef:
    def __init__(self, dotted):
        self.dotted = dotted


class ClassRef:
    def __init__(self, name, lib=False):
        self.name, self.lib = name, lib


def meta_value(m):
    return V(KFn, z3.IntVal(0), meta=m)


# --------------------------------------------------------------------------- engine
def split_modifies(m):
    """'obj.field if cond' -> ('obj.field', 'cond');  'obj.field' -> ('obj.field', None)."""
    if ' if ' in m:
        a, b = m.split(' if ', 1)
        return a.strip(), b.strip()
    return m, None


AUTO_FIELDS: set = set()      # 'Class.field' keys declared on the fly (unknown to the contracts)


class Engine:
    MAX_INLINE = 8

    def __init__(self, repo: Repo, key: str, builtins_mod):
        self.repo = repo
        self.key = key
        self.fi = repo.funcs[key.split('#')[0]]
        self.contract: Contract = REGISTRY[key]
        self.B = builtins_mod
        from . import tensors as _T, distmodel as _D
        self.T, self.D = _T, _D
        self.facts: list = []
        self.obligations: list[Obligation] = []
        self.exits: list[Exit] = []
        self.frames: list[Frame] = []
        self.spec_mode = 0
        self.old_heap = None
        self.old_env = None
        self.site_counters: dict[str, int] = {}
        self.assumptions: set[str] = set()
        self.local_fact_ids: set[int] = set()
        self.inlined: set[str] = set()
        self.used_contracts: set[str] = set()
        self.trusted_used: set[str] = set()
        self.unsupported: list[str] = []
        self.covers: list = []
        self.cls_ids: dict[str, int] = {}
        self.result_v = None
        self.bound_stack: list = []
        self.ghost_spec_env: dict[str, V] = {}
        self.uf_cache: dict = {}
        self._named: dict = {}
        self.binders: list = []

    # ------------------------------------------------------------------ utilities
    def site(self, kind):
        n = self.site_counters.get(kind, 0)
        self.site_counters[kind] = n + 1
        return f'{kind}#{n}'

    # ---- binders: while a quantifier / comprehension body is evaluated at a symbolic index, every
    # fresh symbol is a Skolem function of the bound variables and every fact is universally closed.
    def push_binder(self, vs, cond):
        self.binders.append((list(vs), cond))

    def pop_binder(self):
        self.binders.pop()

    def bound_vars(self):
        return [v for vs, _ in self.binders for v in vs]

    def close(self, f, path=None):
        if not self.binders:
            return f if path is None or z3.is_true(path) else z3.Implies(path, f)
        conds = [c for _, c in self.binders if c is not None]
        if path is not None and not z3.is_true(path):
            conds.append(path)
        body = z3.Implies(z3.And(*conds), f) if conds else f
        return Vm.forall(self.bound_vars(), body)

    def fresh(self, kind, base='v') -> V:
        return V(kind, self.fresh_term(kind.sort(), base))

    def fresh_term(self, sort, base='t'):
        if not self.binders:
            return z3.Const(fresh_name(base), sort)
        bv = self.bound_vars()
        f = z3.Function(fresh_name(base), *[v.sort() for v in bv], sort)
        return f(*bv)

    def fact(self, st: State | None, f):
        g = self.close(f, st.path if st is not None else None)
        if st is not None and not z3.is_true(st.path):
            self.local_fact_ids.add(g.get_id())      # holds under a path condition only
        self.facts.append(g)

    def oblige(self, st: State, goal, name, kind='ensures', props=(), text=''):
        if st.dead:
            return
        if self.binders:
            hyps = list(self.facts)
            goal = self.close(goal, st.path)
        else:
            hyps = list(self.facts) + [st.path]
        self.obligations.append(Obligation(
            name=f'{self.key}/{name}', hyps=hyps, goal=goal, kind=kind,
            props=tuple(props) or tuple(self.contract.props), text=text))

    def cls_id(self, name):
        if name not in self.cls_ids:
            self.cls_ids[name] = len(self.cls_ids) + 1
        return self.cls_ids[name]

    def allowed_exc(self, exc):
        c = self.contract
        if any(self._handles(h, exc) for h in getattr(self, 'try_stack', [])):
            return True        # raised inside a try block that handles it
        return exc in c.may_raise or any(e == exc for e, _ in c.raises)

    def require(self, st: State, cond, exc, what=''):
        """Definedness / implicit-exception condition at the current point."""
        if self.spec_mode or st.dead:
            return
        cond = z3.simplify(cond) if not isinstance(cond, bool) else z3.BoolVal(cond)
        if z3.is_true(cond):
            return
        if self.allowed_exc(exc):
            bad = st.copy()
            bad.add(z3.Not(cond))
            if not bad.dead:
                self.exits.append(Exit(bad.path, 'raise', exc, bad, self.site(exc)))
        else:
            self.oblige(st, cond, f'noexc:{self.site(exc)}', kind='noexc',
                        text=f'{exc} cannot be raised here ({what})')
        st.add(cond)

    def raise_exc(self, st: State, exc, node=None):
        if st.dead:
            return
        if self.spec_mode:
            raise SpecError('raise in spec mode')
        if not self.allowed_exc(exc):
            # undeclared explicit raise: must be unreachable
            self.oblige(st, z3.BoolVal(False), f'noexc:{self.site(exc)}', kind='noexc',
                        text=f'explicit raise {exc} must be unreachable (no raises clause)')
        else:
            self.exits.append(Exit(st.path, 'raise', exc, st.copy(), self.site('raise:' + exc)))
        st.kill()

    # ------------------------------------------------------------------ heap
    def field_decl(self, cls, fname):
        """Return (heap key, kind) for a field of static class `cls`."""
        if cls is None:
            # unique declaration across all classes?
            cands = {(c, f): k for (c, f), k in FIELDS.items() if f == fname}
            if len(cands) == 1:
                (c, f), k = next(iter(cands.items()))
                return f'{c}.{f}', k
            raise Unsupported(f'field {fname} on object of unknown class')
        for c in self.class_mro(cls):
            if (c, fname) in FIELDS:
                return f'{c}.{fname}', FIELDS[(c, fname)]
        if cls in self.repo.classes and not fname.startswith('__'):
            # a field the contracts do not declare (e.g. introduced by a change to the code): treated as a
            # dynamically typed attribute of that class, so that the rest of the function is still checked
            FIELDS[(cls, fname)] = KDyn
            AUTO_FIELDS.add(f'{cls}.{fname}')
            self.assumptions.add(f'field {cls}.{fname} is not declared in contracts/classes.py: treated as dynamically typed')
            return f'{cls}.{fname}', KDyn
        raise Unsupported(f'undeclared field {cls}.{fname}')

    def class_mro(self, cls):
        if cls in self.repo.classes:
            mro = self.repo.mro(cls)
            # continue into library bases
            extra = []
            for c in mro:
                for b in self.repo.classes[c].bases:
                    b = b.split('.')[-1]
                    if b in LIB_CLASSES and b not in extra:
                        extra.append(b)
            return mro + extra
        if cls in LIB_CLASSES:
            out = [cls]
            for b in LIB_CLASSES[cls]['bases']:
                out += self.class_mro(b)
            return out
        return [cls]

    def is_subclass(self, c, base):
        return base in self.class_mro(c)

    def known_subclasses(self, base):
        out = [c for c in list(self.repo.classes) + list(LIB_CLASSES) if self.is_subclass(c, base)]
        return out

    def heap_array(self, st: State, key, kind):
        if key not in st.heap:
            arr = z3.Const(f'H0:{key}', z3.ArraySort(z3.IntSort(), kind.sort()))
            st.heap[key] = arr
            if self.old_heap is not None and key not in self.old_heap:
                self.old_heap[key] = arr
            self.heap_closed(None, key, arr, kind, z3.Int('alloc0'))
        return st.heap[key]

    def frame_spec(self):
        """(allowed objects per heap key, field names any object may change) of the function's modifies clause."""
        if getattr(self, '_frame_spec', None) is not None:
            return self._frame_spec
        c = self.contract
        allowed, anyobj = {}, set()
        for m in list(c.modifies) + [t for t, _ in c.ghost_sets]:
            if m.startswith('*.'):
                anyobj.add(m[2:])
                continue
            if m == '*' or m.startswith('global:') or m == 'fresh' or m.startswith('ghost:'):
                continue
            m, cond = split_modifies(m)
            node = ast.parse(m, mode='eval').body
            if not isinstance(node, ast.Attribute):
                raise SpecError(f'modifies clause must be obj.field: {m}')
            obj = self.eval_spec(node.value, self.init_state, self.init_state)
            key, _ = self.field_decl(obj.kind.cls if isinstance(obj.kind, KRef) else None, node.attr)
            ct = self.truth(self.eval_spec(ast.parse(cond, mode='eval').body, self.init_state, self.init_state)) if cond else None
            allowed.setdefault(key, []).append((obj.term, ct))
        self._frame_spec = (allowed, anyobj)
        return self._frame_spec

    def loop_frame_formula(self, key, arr):
        """forall r existing at function entry and not allowed by the modifies clause: arr[r] == entry[r]"""
        c = self.contract
        if c.modifies == ['*'] or key in AUTO_FIELDS or self.old_heap is None:
            return None
        allowed, anyobj = self.frame_spec()
        fname = key.split('.', 1)[1]
        if key in anyobj or fname in anyobj:
            return None
        init = self.old_heap.get(key)
        if init is None:
            return None
        r = z3.Int(fresh_name('r'))
        excl = [(r != o) if ct is None else z3.Not(z3.And(ct, r == o)) for o, ct in allowed.get(key, [])]
        return Vm.forall([r], z3.Implies(z3.And(r > 0, r < z3.Int('alloc0'), *excl), z3.Select(arr, r) == z3.Select(init, r)),
                         patterns=[z3.Select(arr, r)])

    def materialize_key(self, st, key):
        if key.startswith('$ghost:'):
            kind = self.ghost_kind(key[len('$ghost:'):])
        elif key.startswith('$global:'):
            mod, name = key[len('$global:'):].rsplit('.', 1)
            kind = GLOBALS.get((mod, name))
        elif key == '$cls':
            kind = KInt
        else:
            kind = self.kind_of_key(key)
        if kind is not None:
            self.heap_array(st, key, kind)

    def kind_of_key(self, key):
        if '.' in key and not key.startswith('$'):
            c, f = key.split('.', 1)
            return FIELDS.get((c, f))
        return None

    def ref_wf(self, st, term, kind, nxt):
        """Well-formedness of a reference-valued term: allocated, and of (a subclass of) its static class."""
        cs = [term >= 0, term < nxt]
        if kind.cls is None and getattr(kind, 'classes', None):
            carr = st.heap.get('$cls') if st is not None else None
            if carr is None:
                carr = z3.Const('H0:$cls', z3.ArraySort(z3.IntSort(), z3.IntSort()))
            subs = [x for c_ in kind.classes for x in self.known_subclasses(c_)]
            c = z3.Select(carr, term)
            cs.append(z3.Or(term == 0, *[c == self.cls_id(s_) for s_ in subs]))
        if kind.cls is not None and kind.cls in ('Tensor', 'Future', 'WorkFuture'):
            carr = st.heap.get('$cls') if st is not None else None
            if carr is None:
                carr = z3.Const('H0:$cls', z3.ArraySort(z3.IntSort(), z3.IntSort()))
            subs = self.known_subclasses(kind.cls)
            c = z3.Select(carr, term)
            cs.append(z3.Or(term == 0, *[c == self.cls_id(s_) for s_ in subs]))
        return z3.And(*cs)

    def heap_closed(self, st, key, arr, kind, nxt):
        """Heap closedness for a reference-typed field array: every stored reference is allocated and
        conforms to the declared class (one quantified fact per array instead of one fact per read)."""
        if isinstance(kind, KList) and isinstance(kind.elem, KRef) and not key.startswith('$'):
            # list-valued field: the elements of every stored list are allocated objects of the element class
            ck = ('closedl', key, arr.get_id())
            if ck in self.uf_cache:
                return
            self.uf_cache[ck] = True
            r, j = z3.Int(fresh_name('hr')), z3.Int(fresh_name('hj'))
            lo = ListOps(kind)
            el = lo.at(z3.Select(arr, r), j)
            wf = self.ref_wf(st, el, kind.elem, nxt)
            f = Vm.forall([r, j], z3.Implies(z3.And(r > 0, r < nxt, j >= 0, j < lo.len(z3.Select(arr, r))), wf), patterns=[el])
            if st is None:
                self.facts.append(f)
            else:
                self.fact(st, f)
            return
        if not isinstance(kind, KRef) or key.startswith('$'):
            return
        ck = ('closed', key, arr.get_id())
        if ck in self.uf_cache:
            return
        self.uf_cache[ck] = True
        r = z3.Int(fresh_name('hr'))
        full = self.ref_wf(st, z3.Select(arr, r), kind, nxt)
        # conformance to the declared class holds for every cell, also for cells of objects allocated
        # later (prophecy cells used by callee contracts); the allocation bound only for existing objects
        conf = z3.And(*[c for c in full.children()[2:]], z3.Select(arr, r) >= 0) if full.num_args() > 2 else (z3.Select(arr, r) >= 0)
        self.fact(st, Vm.forall([r], conf, patterns=[z3.Select(arr, r)], tag='conf_')) if st is not None else \
            self.facts.append(Vm.forall([r], conf, patterns=[z3.Select(arr, r)], tag='conf_'))
        body = z3.Select(arr, r) < nxt
        if key == 'Future.will_be':
            # type invariant: the value a Future stands for is a (non-null) tensor
            nn = z3.Implies(self.isinstance_term(st or self.init_state, V(KRef(None), r), 'Future')
                            if (st is not None or getattr(self, 'init_state', None) is not None) else z3.BoolVal(True),
                            z3.Select(arr, r) != 0)
            (self.fact(st, Vm.forall([r], nn, patterns=[z3.Select(arr, r)], tag='nn_')) if st is not None
             else self.facts.append(Vm.forall([r], nn, patterns=[z3.Select(arr, r)], tag='nn_')))
        # only cells of objects allocated when the array came into being: cells beyond are used as
        # prophecy for objects allocated later (callee contracts) and must stay unconstrained
        f = Vm.forall([r], z3.Implies(z3.And(r > 0, r < nxt), body), patterns=[z3.Select(arr, r)])
        if st is None:
            self.facts.append(f)
        else:
            self.fact(st, f)

    def read_field(self, st: State, obj: V, fname, cls=None):
        cls = cls or (obj.kind.cls if isinstance(obj.kind, KRef) else None)
        key, kind = self.field_decl(cls, fname)
        arr = self.heap_array(st, key, kind)
        self.require(st, obj.term != 0, 'AttributeError', f'.{fname} of None')
        val = V(kind, z3.Select(arr, obj.term))
        self.assume_wellformed(st, val)
        return val

    def write_field(self, st: State, obj: V, fname, val: V, cls=None):
        cls = cls or (obj.kind.cls if isinstance(obj.kind, KRef) else None)
        key, kind = self.field_decl(cls, fname)
        arr = self.heap_array(st, key, kind)
        self.require(st, obj.term != 0, 'AttributeError', f'.{fname} of None')
        val = coerce(val, kind)
        if isinstance(kind, KRef) and kind.cls is None and getattr(kind, 'classes', None) and not self.spec_mode:
            # the field's type invariant (e.g. Tensor | Future | None) is re-established at every store
            ok = z3.Or(val.term == 0, *[self.isinstance_term(st, val, c_) for c_ in kind.classes])
            if not z3.is_true(z3.simplify(ok)):
                self.oblige(st, ok, f'typeinv:{self.site(key)}', kind='typeinv',
                            text=f'value stored into {key} is None or an instance of {"|".join(kind.classes)}')
        st.heap[key] = z3.Store(arr, obj.term, val.term)

    def assume_wellformed(self, st, val: V):
        """Facts true of every value read from the heap / received as input."""
        if self.binders and self.spec_mode:
            return       # inside quantified specifications: no implicit facts (keeps hypotheses small)
        k = val.kind
        if isinstance(k, KRef) and st.nxt is not None:
            self.fact(st, z3.And(val.term >= 0, val.term < st.nxt))
            if k.cls is not None and k.cls in ('Tensor', 'Future', 'WorkFuture'):
                # the static class of a declared field / parameter is a sort hint: dynamic class conforms
                self.fact(st, z3.Or(val.term == 0, self.isinstance_term(st, val, k.cls)))
        elif isinstance(k, KDict):
            ops = DictOps(k)
            d = val.term
            if not z3.is_const(d):
                # patterns may not contain ite/store terms: name the dict value
                key = d.get_id()
                if key in self._named:
                    return
                dc = z3.Const(fresh_name('dict'), d.sort())
                self._named[key] = dc
                self.fact(st, dc == d)
                d = dc
            for f in ops.rep_inv(d):
                self.fact(st, f)
            refs = self.ref_components(k.val)
            if refs and st.nxt is not None:
                # by position (not by key): instantiating at keys[j] creates no new index terms, whereas a
                # by-key formulation (`k in d ==> ...`) builds keys[idx[k]] and feeds a matching loop
                jj = z3.Int(fresh_name('wj'))
                velt = z3.Select(ops.vals(d), z3.Select(ops.keys(d), jj))
                cs = [self.ref_wf(st, acc(velt), rk, st.nxt) for acc, rk in refs]
                self.fact(st, Vm.forall([jj], z3.Implies(z3.And(jj >= 0, jj < ops.n(d)), z3.And(*cs)),
                                        patterns=[z3.Select(ops.keys(d), jj)]))
        elif isinstance(k, KTuple):
            for it in tuple_items(val):
                self.assume_wellformed(st, it)
        elif isinstance(k, KList) and val.term is not None and val.meta is None:
            lo = ListOps(k)
            t = val.term
            ck = ('listwf', t.get_id(), st.nxt.get_id() if st.nxt is not None else 0)
            if ck in self.uf_cache:
                return
            self.uf_cache[ck] = True
            self.fact(st, lo.len(t) >= 0)
            refs = self.ref_components(k.elem)
            if refs and st.nxt is not None:
                jj = z3.Int(fresh_name('lj'))
                cs = [self.ref_wf(st, acc(lo.at(t, jj)), rk, st.nxt) for acc, rk in refs]
                self.fact(st, Vm.forall([jj], z3.Implies(z3.And(jj >= 0, jj < lo.len(t)), z3.And(*cs)),
                                        patterns=[lo.at(t, jj)]))

    def ref_components(self, kind):
        """Accessors of the reference-typed components of a value kind (Ref itself or Refs inside tuples)."""
        if isinstance(kind, KRef):
            return [(lambda t: t, kind)]
        if isinstance(kind, KTuple):
            out = []
            dt = kind.sort()
            for i, ik in enumerate(kind.items):
                for acc, rk in self.ref_components(ik):
                    out.append((lambda t, i=i, acc=acc, dt=dt: acc(dt.accessor(0, i)(t)), rk))
            return out
        return []

    def alloc(self, st: State, cls) -> V:
        a = st.nxt
        st.nxt = st.nxt + 1
        ref = V(KRef(cls), a)
        carr = self.heap_array(st, '$cls', KInt)
        st.heap['$cls'] = z3.Store(carr, a, z3.IntVal(self.cls_id(cls)))
        return ref

    def alloc_block(self, st: State, cls, n, fields) -> V:
        """Allocate `n` (symbolic) objects of class `cls` at consecutive addresses; fields: name -> function of
        the index term giving the field's value.  Returns the list [obj_0, ..., obj_{n-1}]."""
        base = st.nxt
        self.fact(st, n >= 0)
        nx = z3.Int(fresh_name('alloc'))
        self.fact(st, nx == base + n)
        st.nxt = nx
        r, i = z3.Int(fresh_name('r')), z3.Int(fresh_name('i'))
        lk = KList(KRef(cls))
        lo = ListOps(lk)
        out = z3.Const(fresh_name('blk'), lk.sort())
        self.fact(st, lo.len(out) == n)
        self.fact(st, Vm.forall([i], z3.Implies(z3.And(i >= 0, i < n), lo.at(out, i) == base + i), patterns=[lo.at(out, i)]))

        def update(key, kind, value_of):
            old = self.heap_array(st, key, kind)
            new = z3.Const(fresh_name('H:' + key), old.sort())
            self.fact(st, Vm.forall([r], z3.Implies(z3.Or(r < base, r >= nx), z3.Select(new, r) == z3.Select(old, r)),
                                    patterns=[z3.Select(new, r)]))
            self.fact(st, Vm.forall([i], z3.Implies(z3.And(i >= 0, i < n), z3.Select(new, base + i) == value_of(i)),
                                    patterns=[z3.Select(new, base + i)]))
            # (the same, addressed through the returned list: the form in which the elements are used)
            self.fact(st, Vm.forall([i], z3.Implies(z3.And(i >= 0, i < n), z3.Select(new, lo.at(out, i)) == value_of(i)),
                                    patterns=[z3.Select(new, lo.at(out, i))]))
            st.heap[key] = new
        update('$cls', KInt, lambda _i: z3.IntVal(self.cls_id(cls)))
        for fname, fn in fields.items():
            key, kind = self.field_decl(cls, fname)
            update(key, kind, fn)
        return V(lk, out)

    def class_of(self, st, obj: V):
        return z3.Select(self.heap_array(st, '$cls', KInt), obj.term)

    def isinstance_term(self, st, obj: V, cname):
        subs = self.known_subclasses(cname)
        c = self.class_of(st, obj)
        return z3.And(obj.term != 0, z3.Or(*[c == self.cls_id(s) for s in subs]))

    # ------------------------------------------------------------------ top level
    def run(self):
        c = self.contract
        fi = self.fi
        st = State()
        st.nxt = z3.Int('alloc0')
        self.facts.append(st.nxt > 1000000)      # enum members live at fixed small addresses
        frame = Frame(fi=fi, module=fi.module, self_cls=c.self_cls or fi.cls, contract=c)
        self.frames.append(frame)
        # parameters
        args = fi.node.args
        allp = list(args.posonlyargs) + list(args.args) + list(args.kwonlyargs)
        if args.vararg:
            allp.append(args.vararg)
        if args.kwarg:
            allp.append(args.kwarg)
        for a in allp:
            name = a.arg
            if name == 'self' and not fi.is_static and frame.self_cls:
                kind = KRef(frame.self_cls)
            elif (args.vararg and a is args.vararg) or (args.kwarg and a is args.kwarg):
                v = V(KDyn, z3.Const(fresh_name(name), DynS), meta=Pack(name))
                st.env[name] = v
                continue
            elif name in c.params:
                kind = c.params[name]
            else:
                raise SpecError(f'{self.key}: no kind declared for parameter {name}')
            v = fresh(kind, name)
            st.env[name] = v
            self.assume_wellformed(st, v)
            if name == 'self':
                self.fact(st, v.term > 0)
                if frame.self_cls and not c.self_cls:
                    # dynamic class is some subclass of the static one
                    pass
        for name, kind in c.closure.items():
            v = fresh(kind, name)
            st.env[name] = v
            self.assume_wellformed(st, v)
        self.param_env = dict(st.env)
        self.old_env = dict(st.env)
        self.old_heap = {}
        self.init_state = st.copy()
        self.old_heap = dict(st.heap)
        self.init_state = st.copy()
        # lets
        self.let_nodes = {k: ast.parse(t, mode='eval').body for k, t in c.lets.items()}
        # requires
        for cl in c.requires:
            r = self.eval_spec(cl.node, st, st)
            self.facts.append(self.truth(r))
        self.spec_mode += 1
        # tensors of declared rank: their (immutable) shape list is taken in canonical representation;
        # only len and the elements in range are observable, so this loses no behaviour
        for expr, rank_ in c.ranks.items():
            node = ast.parse(expr, mode='eval').body
            obj = self.eval_spec(node, st, st)
            sh = self.read_field(st, obj, 'shape', cls='Tensor')
            lo = ListOps(sh.kind)
            canon = lo.from_items([lo.at(sh.term, z3.IntVal(i)) for i in range(rank_)])
            self.facts.append(z3.Implies(obj.term != 0, sh.term == canon))
            key, kind = self.field_decl('Tensor', 'shape')
            st.heap[key] = z3.Store(self.heap_array(st, key, kind), obj.term, canon)
            self.assumptions.add('shape lists of input tensors of declared rank are in canonical representation (unobservable difference)')
        self.spec_mode -= 1
        self.old_heap = dict(st.heap)
        self.init_state = st.copy()
        self.param_defs = {}
        for cl in c.definitions:
            if '@' in cl.label:         # 'name@j': parameterised by j, instantiated explicitly (no quantified axiom => no matching loop)
                name, var = cl.label.split('@')
                self.param_defs[name] = (var, cl)
            else:
                self.facts.append(self.truth(self.eval_spec(cl.node, st, st)))
            self.assumptions.add(f'definition of a ghost function ({cl.label}): {cl.text[:160]}')
        for cl in c.hints:
            r = self.truth(self.eval_spec(cl.node, st, st))
            self.oblige(st, r, f'hint:{cl.label}', kind='hint', text=cl.text, props=cl.props)
            self.facts.append(r)
        self.pre_facts = list(self.facts)
        # covers: requires jointly satisfiable
        self.covers.append(('requires-satisfiable', list(self.facts), z3.BoolVal(True)))
        for cl in c.covers:
            r = self.eval_spec(cl.node, st, st)
            self.covers.append((f'cover:{cl.label}', list(self.facts), self.truth(r)))
        # pre-state evaluation of raises conditions
        raise_conds = {}
        for exc, cl in c.raises:
            raise_conds[exc] = self.truth(self.eval_spec(cl.node, st, st))
        # body
        body = body_without_docstring(fi.node)
        res_state, res_val = self.exec_function_body(body, st, frame)
        self.final_state = res_state
        self.result_v = res_val
        # ---- exceptional post-conditions (two-sided):
        #   every exit that raises E satisfies E's condition, and a normal return satisfies none of the
        #   conditions (the function either raises or returns: termination of loops is assumed)
        pre = State()
        pre.path = z3.BoolVal(True)
        by_exc: dict[str, list] = {}
        for ex in self.exits:
            by_exc.setdefault(ex.exc, []).append(ex)
        for exc, cond in raise_conds.items():
            cl = [cl for e, cl in c.raises if e == exc][0]
            exs = by_exc.get(exc, [])
            raised = z3.Or(*[e.cond for e in exs]) if exs else z3.BoolVal(False)
            self.oblige(pre, z3.Implies(raised, cond), f'raises:{exc}:raised=>when', kind='raises',
                        text=f'raises {exc} ==> ({cl.text})', props=cl.props)
            if not res_state.dead:
                self.oblige(res_state, z3.Not(cond), f'raises:{exc}:when=>raised', kind='raises',
                            text=f'({cl.text}) ==> raises {exc}   [a normal return implies the condition is false]', props=cl.props)
            self.covers.append((f'cover:raises:{exc}', list(self.pre_facts), cond))
        if c.raises:
            none = z3.And(*[z3.Not(x) for x in raise_conds.values()])
            self.covers.append(('cover:no-raise', list(self.pre_facts), none))
        for exc, cl in c.exsures:
            for ex in self.exits:
                if ex.exc == exc:
                    r = self.eval_spec(cl.node, ex.state, self.init_state)
                    self.oblige(ex.state, self.truth(r), f'{cl.label}@{ex.site}', kind='exsures',
                                text=f'on raising {exc}: {cl.text}', props=cl.props)
        # ---- normal post-conditions
        if not res_state.dead:
            self.apply_ghost_sets(c, res_state, self.init_state, res_val)
            for cl in c.ensures:
                if cl.bounded:
                    continue      # decided by the bounded run-time check only (never counted as proved)
                if cl.composed:
                    self.assumptions.add(f'clause {cl.label} of {c.key} is not proved in its body: it is the composition of the '
                                         f'clauses named in the contract and assumption S8 (DESIGN 13.9); callers rely on it')
                    continue
                r = self.eval_spec(cl.node, res_state, self.init_state, result=res_val)
                self.oblige(res_state, self.truth(r), f'ensures:{cl.label}', kind='ensures',
                            text=cl.text, props=cl.props)
            self.check_frame(res_state)
        elif c.ensures:
            self.covers.append(('normal-exit-reachable', list(self.facts), z3.BoolVal(False)))
        if not res_state.dead:
            self.covers.append(('normal-exit-reachable', list(self.facts), res_state.path))

    def exec_function_body(self, body, st, frame):
        try:
            self.exec_block(body, st)
        except _Return:
            pass
        if not st.dead:
            frame.returns.append((st, NONE))
        return self.merge_returns(frame.returns)

    def merge_returns(self, returns):
        live = [(s, v) for s, v in returns if not s.dead]
        if not live:
            s = State()
            s.kill()
            return s, NONE
        acc_s, acc_v = live[-1]
        acc_s = acc_s.copy()
        for s, v in reversed(live[:-1]):
            acc_v = merge(s.path, v, acc_v)
            acc_s = self.merge_states(s.path, s, acc_s)
        return acc_s, acc_v

    def merge_states(self, c, a: State, b: State) -> State:
        """State equal to `a` where c holds, `b` otherwise; path = a.path or b.path."""
        if a.dead:
            return b.copy()
        if b.dead:
            return a.copy()
        out = State()
        for k in set(a.env) | set(b.env):
            if k in a.env and k in b.env:
                try:
                    out.env[k] = merge(c, a.env[k], b.env[k])
                except Unsupported:
                    out.env[k] = None     # poisoned: use raises Unsupported
            else:
                out.env[k] = a.env.get(k, b.env.get(k))
        for k in set(a.heap) | set(b.heap):
            ha, hb = a.heap.get(k), b.heap.get(k)
            if ha is None or hb is None:
                # field first touched in one branch: other branch has the initial array
                init = self.old_heap.get(k)
                ha = ha if ha is not None else init
                hb = hb if hb is not None else init
            out.heap[k] = ha if z3.eq(ha, hb) else z3.If(c, ha, hb)
        out.nxt = a.nxt if z3.eq(a.nxt, b.nxt) else z3.If(c, a.nxt, b.nxt)
        out.path = z3.simplify(z3.Or(a.path, b.path))
        return out

    def check_frame(self, st: State):
        c = self.contract
        if c.modifies == ['*']:
            return
        allowed, anyobj = self.frame_spec()
        a0 = z3.Int('alloc0')
        for key, arr in st.heap.items():
            if key in AUTO_FIELDS:
                continue      # attribute unknown to the contracts: outside every frame condition
            if key == '$cls':
                continue
            if key.startswith('$ghost:'):
                gname = key[len('$ghost:'):]
                if f'ghost:{gname}' in c.modifies or gname in ('next_sid', 'calls', 'clock', 'barriers'):
                    continue
                init = self.old_heap.get(key)
                if init is None or z3.eq(init, arr):
                    continue
                self.oblige(st, z3.Select(arr, 0) == z3.Select(init, 0), f'frame:{key}', kind='frame',
                            text=f'ghost state {gname} (e.g. the collective trace) is not modified')
                continue
            if key.startswith('$global:'):
                gname = key.rsplit('.', 1)[1]
                if f'global:{gname}' in c.modifies:
                    continue
                init = self.old_heap.get(key)
                if init is None or z3.eq(init, arr):
                    continue
                self.oblige(st, z3.Select(arr, 0) == z3.Select(init, 0), f'frame:{key}', kind='frame',
                            text=f'module global {gname} is not modified')
                continue
            init = self.old_heap.get(key)
            if init is None or z3.eq(init, arr):
                continue
            fname = key.split('.', 1)[1] if '.' in key else key
            if key in anyobj or fname in anyobj:
                continue
            r = z3.Int(fresh_name('r'))
            excl = [(r != o) if ct is None else z3.Not(z3.And(ct, r == o)) for o, ct in allowed.get(key, [])]
            goal = Vm.forall([r], z3.Implies(z3.And(r > 0, r < a0, *excl),
                                             z3.Select(arr, r) == z3.Select(init, r)))
            self.oblige(st, goal, f'frame:{key}', kind='frame',
                        text=f'only {c.modifies} may be modified; field {key} of other objects unchanged')

    # ------------------------------------------------------------------ spec evaluation
    def truth(self, v: V):
        if v.kind == KBool:
            return v.term
        return self.truthy(v)

    def eval_spec(self, node, st: State, old: State, result=None, extra_env=None):
        """Evaluate a contract expression: names -> parameter values (entry), heap -> st's heap,
        old(e) -> evaluated in `old`."""
        self.spec_mode += 1
        saved = (getattr(self, '_spec_old', None), getattr(self, '_spec_result', None))
        self._spec_old, self._spec_result = old, result
        try:
            s = st.copy()
            s.env = dict(self.param_env) if not self._callee_env else dict(self._callee_env)
            if extra_env:
                s.env.update(extra_env)
            s.env.update(self.ghost_spec_env)
            return self.eval(node, s)
        finally:
            self._spec_old, self._spec_result = saved
            self.spec_mode -= 1

    _callee_env = None

    def spec_def_caller(self, name):
        params, node, _ = SPEC_DEFS[name]

        def call(eng, st, args, kwargs):
            if len(args) != len(params):
                raise SpecError(f'spec function {name}: arity')
            from .contracts import OPAQUE_DEFS
            if name in OPAQUE_DEFS and all(a.term is not None and a.meta is None for a in args):
                kinds = tuple(a.kind for a in args)
                ck = ('opaque', name, tuple(repr(k) for k in kinds))
                if ck not in self.uf_cache:
                    f = z3.Function(f'p_{name}', *[k.sort() for k in kinds], z3.BoolSort())
                    self.uf_cache[ck] = f
                    cs = [z3.Const(f'o_{name}_{i}', k.sort()) for i, k in enumerate(kinds)]
                    s0 = State()
                    s0.nxt = st.nxt
                    s0.env = {p: V(k, c_) for p, k, c_ in zip(params, kinds, cs)}
                    saved_b = self.binders
                    self.binders = []
                    self.spec_mode += 1
                    try:
                        body = self.truth(self.eval(node, s0))
                    finally:
                        self.spec_mode -= 1
                        self.binders = saved_b
                    self.facts.append(z3.ForAll(cs, f(*cs) == body, patterns=[f(*cs)]))
                return BoolV(self.uf_cache[ck](*[a.term for a in args]))
            s = st.copy()
            s.env = dict(zip(params, args))
            self.spec_mode += 1
            try:
                return self.eval(node, s)
            finally:
                self.spec_mode -= 1
        return call

    def run_lemma(self, lem):
        """A lemma over spec functions / contracts: hyps ==> goal for all values of its variables."""
        st = State()
        st.nxt = z3.Int('alloc0')
        self.in_lemma = True
        self.frames.append(Frame(fi=self.fi, module=self.fi.module, self_cls=None, contract=self.contract))
        self.param_env = {n: fresh(k, n) for n, k in lem.vars.items()}
        self.init_state = st.copy()
        self.old_heap = {}
        if lem.theory:
            from . import theory as TH
            groups, _ = TH.groups()
            for gname in lem.theory:
                self.facts += groups[gname]
                self.assumptions.add(f'matrix theory axioms: {gname}')
        for h in lem.hyps:
            node = ast.parse(h, mode='eval').body
            self.facts.append(self.truth(self.eval_spec(node, st, st)))
        self.covers.append((f'lemma:{lem.name}:hyps-satisfiable', list(self.facts), z3.BoolVal(True)))
        self.let_nodes = {k: ast.parse(t, mode='eval').body for k, t in getattr(lem, 'lets', {}).items()}
        for i, step in enumerate(lem.steps):
            label, text = step if isinstance(step, tuple) else (f's{i}', step)
            sg = self.truth(self.eval_spec(ast.parse(text, mode='eval').body, st, st))
            self.oblige(st, sg, f'lemma:{lem.name}:step:{label}', kind='lemma', props=lem.props, text=text)
            self.facts.append(sg)
        g = self.truth(self.eval_spec(ast.parse(lem.goal, mode='eval').body, st, st))
        self.oblige(st, g, f'lemma:{lem.name}', kind='lemma', props=lem.props, text=lem.text)
        self.frames.pop()

    # ------------------------------------------------------------------ statements
    def exec_block(self, stmts, st: State):
        for s in stmts:
            if st.dead:
                return
            self.exec_stmt(s, st)

    def exec_stmt(self, s, st: State):
        m = getattr(self, 'stmt_' + type(s).__name__, None)
        if m is None:
            raise Unsupported(f'statement {type(s).__name__} at line {s.lineno}')
        m(s, st)

    def stmt_Pass(self, s, st):
        pass

    def stmt_Expr(self, s, st):
        if isinstance(s.value, ast.Constant):
            return
        self.eval(s.value, st)

    def stmt_Return(self, s, st):
        v = self.eval(s.value, st) if s.value is not None else NONE
        if st.dead:
            return
        self.frames[-1].returns.append((st.copy(), v))
        st.kill()

    def stmt_Raise(self, s, st):
        exc = 'Exception'
        if s.exc is not None:
            e = s.exc
            if isinstance(e, ast.Call):
                e = e.func
            exc = ast.unparse(e).split('.')[-1]
        self.raise_exc(st, exc, s)

    def stmt_Try(self, s, st):
        """try / except E [as e] (no finally, no else): exceptions of a handled class raised in the body --
        explicitly, by a callee's contract, or as a definedness condition -- transfer control to the handler."""
        if s.finalbody or s.orelse:
            raise Unsupported('try with else / finally')
        names = []
        for h in s.handlers:
            if h.type is None:
                names.append(['Exception'])
            elif isinstance(h.type, ast.Tuple):
                names.append([ast.unparse(x).split('.')[-1] for x in h.type.elts])
            else:
                names.append([ast.unparse(h.type).split('.')[-1]])
        handled = {n for ns in names for n in ns}
        self.try_stack = getattr(self, 'try_stack', [])
        self.try_stack.append(handled)
        n0 = len(self.exits)
        try:
            self.exec_block(s.body, st)
        finally:
            self.try_stack.pop()
        caught = [ex for ex in self.exits[n0:] if self._handles(handled, ex.exc)]
        self.exits[n0:] = [ex for ex in self.exits[n0:] if not self._handles(handled, ex.exc)]
        ends = []
        for h, ns in zip(s.handlers, names):
            mine = [ex for ex in caught if self._handles(set(ns), ex.exc)]
            caught = [ex for ex in caught if ex not in mine]
            if not mine:
                continue
            hs = mine[0].state.copy()
            for ex in mine[1:]:
                hs = self.merge_states(ex.state.path, ex.state, hs)
            if h.name:
                hs.env[h.name] = fresh(KDyn, h.name)
            self.exec_block(h.body, hs)
            if not hs.dead:
                ends.append(hs)
        for hs in ends:
            if st.dead:
                st.assign_from(hs)
            else:
                st.assign_from(self.merge_states(hs.path, hs, st))

    def _handles(self, handled, exc):
        return exc in handled or 'Exception' in handled or 'BaseException' in handled

    def stmt_Assert(self, s, st):
        c = self.truthy(self.eval(s.test, st))
        if st.dead:
            return
        if self.allowed_exc('AssertionError'):
            self.require(st, c, 'AssertionError', ast.unparse(s.test))
        else:
            self.oblige(st, c, f'assert:{self.site("assert")}', kind='assert',
                        text='assert ' + ast.unparse(s.test))
            st.add(c)

    def stmt_Assign(self, s, st):
        v = self.eval(s.value, st)
        if st.dead:
            return
        for t in s.targets:
            self.assign(t, v, st)

    def stmt_AnnAssign(self, s, st):
        if s.value is None:
            return
        v = self.eval(s.value, st)
        if st.dead:
            return
        self.assign(s.target, v, st)

    def stmt_AugAssign(self, s, st):
        cur = self.eval(self._load(s.target), st)
        rhs = self.eval(s.value, st)
        if st.dead:
            return
        if self.T.is_tensor(cur) or (isinstance(cur.kind, KRef) and cur.kind.cls is None):
            # `t op= x` on a tensor writes t's storage in place (same object, same dtype, same shape)
            if not self.T.is_tensor(cur):
                self.require(st, self.isinstance_term(st, cur, 'Tensor'), 'TypeError', 'tensor operand expected')
                cur = V(KRef('Tensor'), cur.term)
            self.T.tensor_inplace(self, st, type(s.op).__name__, cur, rhs)
            return
        v = self.binop(type(s.op).__name__, cur, rhs, st)
        self.assign(s.target, v, st)

    @staticmethod
    def _load(t):
        import copy
        t2 = copy.copy(t)
        t2.ctx = ast.Load()
        return t2

    def stmt_If(self, s, st):
        self._truth_state = st
        try:
            c = self.truthy(self.eval(s.test, st))
        finally:
            self._truth_state = None
        if st.dead:
            return
        c = z3.simplify(c)
        a, b = st.copy(), st.copy()
        a.add(c)
        b.add(z3.Not(c))
        if not a.dead:
            self.exec_block(s.body, a)
        if not b.dead:
            self.exec_block(s.orelse, b)
        st.assign_from(self.merge_states(c, a, b))

    def stmt_FunctionDef(self, s, st):
        fr = self.frames[-1]
        qual = (fr.fi.qualname + '.' if fr.fi else '') + s.name
        key = f'{fr.module}:{qual}'
        clo = Closure(s, st.env, fr.module, qual, fi=self.repo.funcs.get(key))
        st.env[s.name] = clo.value()

    def stmt_Delete(self, s, st):
        raise Unsupported('del')

    def stmt_Continue(self, s, st):
        fr = self.frames[-1]
        if fr.continues is None:
            raise Unsupported('continue outside loop')
        fr.continues.append(st.copy())
        st.kill()

    def stmt_Break(self, s, st):
        fr = self.frames[-1]
        if fr.breaks is None:
            raise Unsupported('break outside loop')
        fr.breaks.append(st.copy())
        st.kill()

    # ---- assignment targets
    def assign(self, t, v: V, st: State):
        if isinstance(t, ast.Name):
            key = (self.frames[-1].module, t.id)
            if t.id not in st.env and key in GLOBALS and self._is_global_name(t.id):
                raise Unsupported('rebinding a module global')
            fr = self.frames[-1]
            if fr.contract is not None and t.id in fr.contract.locals:
                v = self.coerce_local(v, fr.contract.locals[t.id])
            st.env[t.id] = v
        elif isinstance(t, (ast.Tuple, ast.List)):
            items = self.unpack(v, len(t.elts), st)
            for tt, vv in zip(t.elts, items):
                self.assign(tt, vv, st)
        elif isinstance(t, ast.Attribute):
            obj = self.eval(t.value, st)
            self.setattr(obj, t.attr, v, st)
        elif isinstance(t, ast.Subscript):
            self.assign_subscript(t, v, st)
        else:
            raise Unsupported(f'assignment target {type(t).__name__}')

    def coerce_local(self, v, kind):
        if isinstance(kind, KRecord):
            if isinstance(v.kind, KRecord):
                return v
            if v.meta == 'emptydict':
                return V(kind, kind.empty())
            if isinstance(v.meta, StaticDict):
                t = kind.empty()
                for kk, vv in v.meta.items:
                    t = kind.with_field(t, kk.meta, z3.BoolVal(True), coerce(vv, kind.fields[kk.meta]).term)
                return V(kind, t)
            raise Unsupported('cannot turn this dict into a record')
        if v.meta == 'emptydict' and isinstance(kind, KDict):
            return V(kind, DictOps(kind).empty())
        if v.meta == 'empty' and isinstance(kind, KList):
            return V(kind, ListOps(kind).empty())
        return coerce(v, kind)

    def _is_global_name(self, name):
        return True

    def unpack(self, v: V, n, st):
        if isinstance(v.kind, KTuple):
            items = tuple_items(v)
            if len(items) != n:
                raise Unsupported('tuple unpack arity')
            return items
        if isinstance(v.kind, KList):
            lo = ListOps(v.kind)
            self.require(st, lo.len(v.term) == n, 'ValueError', 'unpack')
            return [V(v.kind.elem, lo.at(v.term, z3.IntVal(i))) for i in range(n)]
        raise Unsupported(f'unpack of {v.kind!r}')

    def setattr(self, obj: V, attr, v: V, st: State):
        if not isinstance(obj.kind, KRef):
            raise Unsupported(f'attribute store on {obj.kind!r}')
        cls = obj.kind.cls
        if cls in self.repo.classes:
            setter = self.repo.find_setter(cls, attr)
            if setter is not None:
                self.call_repo(setter, [obj, v], {}, st)
                return
        self.write_field(st, obj, attr, v)

    FRESH_CALLS = {'list', 'dict', 'defaultdict', 'OrderedDict', 'sorted', 'set', 'tuple', 'deepcopy', 'copy'}

    def alias_names(self):
        """Local names of the current function that may be bound to a container owned by someone else (a parameter,
        an element or field of another object, a loop target, the result of an arbitrary call).  Containers are
        modelled as VALUES: an in-place mutation through such a name would be lost, so it is refused."""
        fr = self.frames[-1]
        node = fr.fi.node if fr.fi is not None else None
        if node is None:
            return set()
        cache = fr.__dict__.setdefault('_alias_names', None)
        if cache is not None:
            return cache
        owned, alias = set(), set()

        def fresh(v):
            if isinstance(v, (ast.List, ast.Dict, ast.ListComp, ast.DictComp, ast.SetComp, ast.Set, ast.Tuple, ast.Constant)):
                return True
            if isinstance(v, ast.BinOp):
                return True
            if isinstance(v, ast.Call):
                f = v.func
                name = f.id if isinstance(f, ast.Name) else (f.attr if isinstance(f, ast.Attribute) else '')
                if name in self.FRESH_CALLS:
                    return True
                # a repository function whose contract states that it returns a newly built container
                return any(c_.fresh_result and k_.split('#')[0].rsplit('.', 1)[-1].split(':')[-1] == name
                           for k_, c_ in REGISTRY.items())
            return False

        def bind(t, is_fresh):
            for x in ast.walk(t):
                if isinstance(x, ast.Name) and isinstance(x.ctx, ast.Store):
                    (owned if is_fresh else alias).add(x.id)
        a = node.args if hasattr(node, 'args') else None
        if a is not None:
            for p in list(a.posonlyargs) + list(a.args) + list(a.kwonlyargs) + ([a.vararg] if a.vararg else []) + ([a.kwarg] if a.kwarg else []):
                alias.add(p.arg)
        for n_ in ast.walk(node):
            if isinstance(n_, ast.Assign):
                for t in n_.targets:
                    if isinstance(t, ast.Name):
                        bind(t, fresh(n_.value))
                    elif isinstance(t, (ast.Tuple, ast.List)):
                        bind(t, False)
            elif isinstance(n_, ast.AnnAssign) and n_.value is not None and isinstance(n_.target, ast.Name):
                bind(n_.target, fresh(n_.value))
            elif isinstance(n_, (ast.For, ast.comprehension)):
                bind(n_.target, False)
            elif isinstance(n_, ast.With):
                for it in n_.items:
                    if it.optional_vars is not None:
                        bind(it.optional_vars, False)
        fr.__dict__['_alias_names'] = alias
        return alias

    def refuse_alias_mutation(self, target, val_kind, what):
        if isinstance(target, ast.Name) and isinstance(val_kind, (KList, KDict)) and not self.spec_mode \
                and not target.id.startswith('__comp') and target.id in self.alias_names():
            raise Unsupported(f'{what} of a container through the local name `{target.id}` that may alias another object '
                              f'(containers are modelled as values)')

    def assign_subscript(self, t: ast.Subscript, v: V, st: State):
        """container[k] = v with value semantics: write back through the l-value path."""
        # dst.transpose(0, 1)[i0, i1] = v : a write through the transposed view of dst
        tv_ = t.value
        if (isinstance(tv_, ast.Call) and isinstance(tv_.func, ast.Attribute) and tv_.func.attr == 'transpose'
                and len(tv_.args) == 2 and all(isinstance(a, ast.Constant) for a in tv_.args)
                and sorted(a.value for a in tv_.args) == [0, 1]):
            base = self.eval(tv_.func.value, st)
            if self.T.is_tensor(base):
                self.T.tensor_setitem(self, st, base, t.slice, v, transposed=True)
                return
        cont = self.eval(self._load(t.value), st)
        if self.T.is_tensor(cont):
            self.T.tensor_setitem(self, st, cont, t.slice, v)
            return
        self.refuse_alias_mutation(t.value, cont.kind, 'item assignment')
        k = self.eval(t.slice, st)
        if st.dead:
            return
        new = self.store_item(cont, k, v, st)
        self.write_back(t.value, new, st)

    def write_back(self, target, new: V, st: State):
        if isinstance(target, ast.Name):
            if target.id in st.env:
                st.env[target.id] = new
            else:
                self.store_global(target.id, new, st)
        elif isinstance(target, ast.Attribute):
            obj = self.eval(self._load(target.value), st)
            self.write_field(st, obj, target.attr, new)
        elif isinstance(target, ast.Subscript):
            cont = self.eval(self._load(target.value), st)
            k = self.eval(target.slice, st)
            new2 = self.store_item(cont, k, new, st, must_exist=True)
            self.write_back(target.value, new2, st)
        else:
            raise Unsupported('write-back target')

    def store_item(self, cont: V, k: V, v: V, st: State, must_exist=False) -> V:
        kd = cont.kind
        if isinstance(kd, KRecord):
            if not isinstance(k.meta, str) or k.meta not in kd.fields:
                raise Unsupported('record dict store must use one of its constant keys')
            vv = coerce(v, kd.fields[k.meta])
            return V(kd, kd.with_field(cont.term, k.meta, z3.BoolVal(True), vv.term))
        if isinstance(kd, KDict):
            ops = DictOps(kd)
            kk = coerce(k, kd.key)
            vv = coerce(v, kd.val)
            if must_exist:
                self.require(st, ops.contains(cont.term, kk.term), 'KeyError')
            return V(kd, ops.set(cont.term, kk.term, vv.term))
        if isinstance(kd, KList):
            i = self.as_int(k, st)
            lo = ListOps(kd)
            n = lo.len(cont.term)
            i2 = self.norm_index(i, n)
            self.require(st, z3.And(i2 >= 0, i2 < n), 'IndexError', 'list store')
            vv = coerce(v, kd.elem)
            return V(kd, lo.mk(n, z3.Store(lo.arr(cont.term), i2, vv.term)))
        raise Unsupported(f'item store into {kd!r}')

    # ---- globals (module-level mutable state such as tracing._func_traces)
    def global_key(self, name):
        return f'$global:{self.frames[-1].module}.{name}'

    def load_global(self, name, st: State):
        mod = self.frames[-1].module
        kind = GLOBALS[(mod, name)]
        arr = self.heap_array(st, f'$global:{mod}.{name}', kind)
        val = V(kind, z3.Select(arr, 0))
        self.assume_wellformed(st, val)
        return val

    def store_global(self, name, v: V, st: State):
        mod = self.frames[-1].module
        if (mod, name) not in GLOBALS:
            raise Unsupported(f'store to undeclared global {name}')
        kind = GLOBALS[(mod, name)]
        arr = self.heap_array(st, f'$global:{mod}.{name}', kind)
        st.heap[f'$global:{mod}.{name}'] = z3.Store(arr, 0, coerce(v, kind).term)

    # ------------------------------------------------------------------ loops
    def find_loop_spec(self, fr, s, lid):
        """Loop contracts are anchored on the text of the iterated expression ('iter:<text>[#k]', k = k-th
        loop over that expression in the function) so that adding or removing an unrelated loop does not
        re-attach invariants to the wrong loop; plain ordinals are still accepted."""
        if not fr.contract:
            return None
        text = ast.unparse(s.iter)
        idx = fr.__dict__.get('loop_index')
        if idx is None:
            # static numbering of the function's loops by iterated-expression text, in source order
            idx, counts = {}, {}
            root = fr.fi.node if fr.fi is not None else None
            for node in (ast.walk(root) if root is not None else []):
                pass
            if root is not None:
                # (dict comprehensions with one generator count as loops too: they can be executed as loops)
                fors = [n_ for n_ in ast.walk(root)
                        if isinstance(n_, ast.For) or (isinstance(n_, ast.DictComp) and len(n_.generators) == 1)]
                fors.sort(key=lambda n_: (n_.lineno, n_.col_offset))
                for n_ in fors:
                    t = ast.unparse(n_.iter if isinstance(n_, ast.For) else n_.generators[0].iter)
                    idx[id(n_)] = counts.get(t, 0)
                    counts[t] = counts.get(t, 0) + 1
            fr.__dict__['loop_index'] = idx
        k = idx.get(getattr(s, '_origin_id', id(s)), 0)
        loops = fr.contract.loops
        for key in (f'iter:{text}#{k}', f'iter:{text}'):
            if key in loops:
                return loops[key]
        if any(kk.startswith('iter:') for kk in loops):
            return None
        return loops.get(lid)

    def next_loop_id(self):
        fr = self.frames[-1]
        lid = f'{fr.loop_prefix}{fr.loop_counter}'
        fr.loop_counter += 1
        return lid

    def assigned_names(self, stmts):
        names = set()

        class Vis(ast.NodeVisitor):
            def visit_Name(s, n):
                if isinstance(n.ctx, ast.Store):
                    names.add(n.id)

            def visit_FunctionDef(s, n):
                names.add(n.name)

            def visit_Lambda(s, n):
                pass

            def _comp(s, n):
                # comprehension variables are local to the comprehension (Python 3): not assignments of the block
                before = set(names)
                s.generic_visit(n)
                tgt = {x.id for g in n.generators for x in ast.walk(g.target) if isinstance(x, ast.Name)}
                names.difference_update(tgt - before)

            visit_ListComp = visit_SetComp = visit_DictComp = visit_GeneratorExp = _comp

            def visit_AugAssign(s, n):
                t = n.target
                while isinstance(t, (ast.Subscript, ast.Attribute)):
                    t = t.value
                if isinstance(t, ast.Name):
                    names.add(t.id)
                s.generic_visit(n)

            def visit_Assign(s, n):
                for t in n.targets:
                    base = t
                    while isinstance(base, ast.Subscript):
                        base = base.value
                    if isinstance(base, ast.Name) and base is not t:
                        names.add(base.id)
                s.generic_visit(n)

            def visit_Call(s, n):
                # in-place container methods mutate the receiver path
                if isinstance(n.func, ast.Attribute) and n.func.attr in (
                        'append', 'extend', 'clear', 'pop', 'add', 'update', 'insert'):
                    base = n.func.value
                    while isinstance(base, ast.Subscript):
                        base = base.value
                    if isinstance(base, ast.Name):
                        names.add(base.id)
                s.generic_visit(n)

        for s in stmts:
            Vis().visit(s)
        return names

    def stmt_For(self, s, st: State):
        if s.orelse:
            raise Unsupported('for-else')
        fr = self.frames[-1]
        lid = self.next_loop_id()
        it = self.eval(s.iter, st)
        if st.dead:
            return
        seq = self.iter_sequence(it, st)     # (length term, at(i)->V)
        spec = self.find_loop_spec(fr, s, lid)
        n, at = seq
        conc = self.concrete_int(n)
        if spec is None:
            if conc is not None and conc <= 16:
                # statically bounded iteration over a literal: complete unrolling, not a bound
                saved_b, saved_c = fr.breaks, fr.continues
                broke = []
                for i in range(conc):
                    fr.breaks, fr.continues = [], []
                    self.assign(s.target, at(z3.IntVal(i)), st)
                    self.exec_block(s.body, st)
                    for cs in fr.continues:
                        st.assign_from(self.merge_states(cs.path, cs, st))
                    broke += fr.breaks
                    if st.dead:
                        break
                fr.breaks, fr.continues = saved_b, saved_c
                for bs in broke:
                    st.assign_from(self.merge_states(bs.path, bs, st))
                return
            raise Unsupported(f'loop {lid} at line {s.lineno} has no invariant')
        self.exec_loop_with_invariant(s, st, lid, spec, n, at)

    def exec_loop_with_invariant(self, s, st, lid, spec, n, at):
        fr = self.frames[-1]
        idx_name = spec.index or f'_i{lid}'
        cname = self.contract.key if fr.contract is self.contract else fr.contract.key

        def inv_env(i_term, state):
            env = {idx_name: IntV(i_term)}
            return env

        # 1. invariant holds on entry (index 0)
        for cl in spec.invariants:
            r = self.eval_inv(cl.node, st, {idx_name: IntV(0)})
            self.oblige(st, self.truth(r), f'loop{lid}:entry:{cl.label}', kind='loop', text=cl.text,
                        props=cl.props)
        # 2. havoc
        assigned = self.assigned_names(s.body) | self.assigned_names([ast.Expr(s.target)]) \
            | {n_.id for n_ in ast.walk(s.target) if isinstance(n_, ast.Name)} | set(spec.modifies)
        # static classes of names visible in the body (locals + the loop target) sharpen callee resolution
        ncls = {nm: v.kind.cls for nm, v in st.env.items() if v is not None and isinstance(v.kind, KRef) and v.kind.cls}
        try:
            probe = st.copy()
            probe.env = dict(st.env)
            self.spec_mode += 1
            try:
                self.assign(s.target, at(z3.Int(fresh_name('kprobe'))), probe)
            finally:
                self.spec_mode -= 1
            for nm, v in probe.env.items():
                if v is not None and isinstance(v.kind, KRef) and v.kind.cls:
                    ncls[nm] = v.kind.cls
        except Unsupported:
            pass
        lk = {nm: v.kind for nm, v in st.env.items() if v is not None}
        heap_keys = self.modified_heap_keys(s.body, name_classes=ncls, local_kinds=lk)
        alloc_only = set(getattr(self, '_alloc_only', set())) if heap_keys is not None else set()
        entry = st.copy()
        frame_keys = []      # keys whose function-level frame is carried as an implicit loop invariant

        def havoc(state):
            havocked = []
            for name in assigned:
                if name in state.env and state.env[name] is not None:
                    v = fresh(state.env[name].kind, name)
                    state.env[name] = v
                    self.assume_wellformed(state, v)
                elif name in state.env:
                    del state.env[name]
            for key in list(state.heap) if heap_keys is None else sorted(heap_keys):
                if key not in state.heap:
                    # first touched inside the loop: materialise the entry array so that the loop's effect
                    # on it is havocked too (otherwise the state after the loop would read the entry array)
                    self.materialize_key(state, key)
                if key in state.heap:
                    srt = state.heap[key].sort()
                    oldarr = state.heap[key]
                    state.heap[key] = z3.Const(fresh_name('H:' + key), srt)
                    havocked.append(key)
                    if key == '$cls' or (key in alloc_only and not key.startswith('$')):
                        # the class of an existing object never changes / the loop writes this field only on
                        # objects it allocates itself: cells of objects existing at loop entry are unchanged
                        r = z3.Int(fresh_name('r'))
                        self.fact(state, Vm.forall([r], z3.Implies(z3.And(r > 0, r < entry.nxt),
                                                                   z3.Select(state.heap[key], r) == z3.Select(oldarr, r)),
                                                   patterns=[z3.Select(state.heap[key], r)]))
                    if not key.startswith('$'):
                        ff = self.loop_frame_formula(key, state.heap[key])
                        if ff is not None:
                            self.fact(state, ff)
                            if key not in frame_keys:
                                frame_keys.append(key)
            if heap_keys is None or heap_keys:
                nx = z3.Int(fresh_name('alloc'))
                self.fact(state, nx >= state.nxt)
                state.nxt = nx
            for key in havocked:
                kind = self.kind_of_key(key)
                if kind is not None:
                    self.heap_closed(state, key, state.heap[key], kind, state.nxt)

        self.fact(st, n >= 0)
        # 2a. implicit invariant: the function's own frame condition (modifies clause) for the arrays the
        # loop havocs -- holds on entry, assumed at the loop head (in havoc), re-proved after the body
        if heap_keys is not None:
            for key in sorted(heap_keys):
                if key.startswith('$') or key not in st.heap:
                    continue
                ff = self.loop_frame_formula(key, st.heap[key])
                if ff is not None and not z3.eq(st.heap[key], self.old_heap.get(key, st.heap[key])):
                    self.oblige(st, ff, f'loop{lid}:entry:frame:{key}', kind='frame',
                                text=f'frame condition of the function holds for {key} when the loop is entered')
        # 2b. kinds of loop-carried locals: a variable that is e.g. None before the loop and a tensor after
        # one iteration must be havocked at the *joined* kind.  Dry-run the body once to learn the kinds.
        snap = (len(self.obligations), len(self.facts), len(self.exits), dict(self.site_counters), len(self.covers),
                fr.breaks, fr.continues, fr.loop_prefix, fr.loop_counter, len(fr.returns))
        dry = st.copy()
        havoc(dry)
        dry.add(z3.BoolVal(True))
        fr.breaks, fr.continues = [], []
        fr.loop_prefix, fr.loop_counter = lid + '.', 0
        kinds = {}
        try:
            kd_ = z3.Int(fresh_name('kdry'))
            self.assign(s.target, at(kd_), dry)
            dry.env[idx_name] = IntV(kd_)       # nested loop contracts may mention the enclosing loop's index
            self.exec_block(s.body, dry)
            for cs in fr.continues:
                dry.assign_from(self.merge_states(cs.path, cs, dry))
            for name in assigned:
                v_end, v_start = dry.env.get(name), st.env.get(name)
                if v_end is not None and v_start is not None and v_end.kind != v_start.kind:
                    kinds[name] = merge(z3.Bool(fresh_name('kc')), v_start, v_end).kind
        finally:
            del self.obligations[snap[0]:]
            # path-independent facts stated during the dry run (e.g. closedness of an entry array that
            # was first touched there) stay: the arrays they describe stay registered too
            keep_ = [f for f in self.facts[snap[1]:] if f.get_id() not in self.local_fact_ids]
            del self.facts[snap[1]:]
            self.facts.extend(keep_)
            del self.exits[snap[2]:]
            self.site_counters = snap[3]
            del self.covers[snap[4]:]
            fr.breaks, fr.continues, fr.loop_prefix, fr.loop_counter = snap[5:9]
            del fr.returns[snap[9]:]
        for name, kd in kinds.items():
            st.env[name] = coerce(st.env[name], kd)
        # 3. arbitrary iteration
        body = st.copy()
        body_facts_from, body_exits_from, body_returns_from = len(self.facts), len(self.exits), len(fr.returns)
        havoc(body)
        k = z3.Int(fresh_name('k' + lid))
        # the arbitrary iteration is a *path* of its own: its assumptions must not leak into the facts
        # used after the loop (in particular not "some iteration exists")
        body.add(z3.And(k >= 0, k < n))
        for cl in spec.invariants:
            r = self.eval_inv(cl.node, body, {idx_name: IntV(k)})
            self.fact(body, self.truth(r))
        for dname in getattr(spec, 'unfold', []) or []:
            var, cl = self.param_defs[dname]
            r = self.eval_spec(cl.node, self.init_state, self.init_state, extra_env={var: IntV(k)})
            self.fact(body, self.truth(r))
        self.assign(s.target, at(k), body)
        # proof by cases over conditions the body branches on (evaluated on entry of the iteration)
        case_terms = []
        for ctext in getattr(spec, 'cases', []) or []:
            ct = z3.simplify(self.truth(self.eval_inv(ast.parse(ctext, mode='eval').body, body, {idx_name: IntV(k)})))
            if not z3.is_true(ct) and not z3.is_false(ct):
                case_terms.append(ct.arg(0) if z3.is_not(ct) else ct)
        saved = (fr.breaks, fr.continues, fr.loop_prefix, fr.loop_counter)
        fr.breaks, fr.continues = [], []
        fr.loop_prefix, fr.loop_counter = lid + '.', 0
        body.env[idx_name] = IntV(k)
        # facts about THIS iteration's element, instantiated once from the quantified invariants
        for cl in getattr(spec, 'pre_hints', []) or []:
            r = self.eval_inv(cl.node, body, {idx_name: IntV(k)})
            self.oblige(body, self.truth(r), f'loop{lid}:pre_hint:{cl.label}', kind='loop', text=cl.text, props=cl.props)
            self.fact(body, self.truth(r))
        self.exec_block(s.body, body)
        for cs in fr.continues:
            body.assign_from(self.merge_states(cs.path, cs, body))
        breaks = fr.breaks
        fr.breaks, fr.continues, fr.loop_prefix, fr.loop_counter = saved
        if not body.dead:
            # calc-style hints: each is proved from what is known at the end of the body, then assumed
            n_before = len(self.obligations)
            for cl in getattr(spec, 'hints', []) or []:
                r = self.eval_inv(cl.node, body, {idx_name: IntV(k)})
                self.oblige(body, self.truth(r), f'loop{lid}:hint:{cl.label}', kind='loop', text=cl.text, props=cl.props)
                self.fact(body, self.truth(r))
            for cl in spec.invariants:
                r = self.eval_inv(cl.node, body, {idx_name: IntV(k + 1)})
                self.oblige(body, self.truth(r), f'loop{lid}:preserved:{cl.label}', kind='loop',
                            text=cl.text, props=cl.props)
            if case_terms:
                for ob_ in self.obligations[n_before:]:
                    ob_.cases = tuple(case_terms)
            for key in frame_keys:
                ff = self.loop_frame_formula(key, body.heap[key])
                if ff is not None:
                    self.oblige(body, ff, f'loop{lid}:preserved:frame:{key}', kind='frame',
                                text=f'an iteration modifies {key} only on the objects the modifies clause allows')
        # 3b. the arbitrary iteration is a dead end for everything that follows (no break / return left it,
        # and no clause speaks about exceptional exits): the facts that hold only on its paths are dropped
        # from the hypotheses of later obligations (dropping hypotheses is always sound)
        top = self.contract
        if (not breaks and len(fr.returns) == body_returns_from
                and (len(self.exits) == body_exits_from or not (top.raises or top.exsures))
                and os.environ.get('PYVC_NO_PRUNE') != '1'):
            keep = [f for f in self.facts[body_facts_from:] if f.get_id() not in self.local_fact_ids]
            del self.facts[body_facts_from:]
            self.facts.extend(keep)
        # 4. after the loop
        havoc(st)
        for cl in spec.invariants:
            r = self.eval_inv(cl.node, st, {idx_name: IntV(n)})
            self.fact(st, self.truth(r))
        for bs in breaks:
            st.assign_from(self.merge_states(bs.path, bs, st))

    def eval_inv(self, node, st, extra):
        """Loop invariants see the *current* locals (plus the ghost index) and old()."""
        self.spec_mode += 1
        saved = (getattr(self, '_spec_old', None), getattr(self, '_spec_result', None))
        self._spec_old, self._spec_result = self.init_state, None
        try:
            s = st.copy()
            s.env = dict(st.env)
            s.env.update(extra)
            s.env.update(self.ghost_spec_env)
            return self.eval(node, s)
        finally:
            self._spec_old, self._spec_result = saved
            self.spec_mode -= 1

    LIB_MUTATORS = {
        'fill_': ['Tensor.val'], 'transpose_': ['Tensor.val', 'Tensor.shape', 'Tensor.contig'],
        'wait': ['Future.resolved'], 'set_result': [],
        'register_forward_pre_hook': ['Module.fwd_hooks'], 'register_full_backward_hook': ['Module.bwd_hooks'],
        'all_reduce': ['Tensor.val', '$ghost:trace'], 'broadcast': ['Tensor.val', '$ghost:trace'],
        'barrier': ['$ghost:trace', '$ghost:barriers'], 'new_group': ['$ghost:trace', 'ProcessGroup.members'],
        'all_gather': ['Tensor.val', '$ghost:trace'], 'reduce_scatter': ['Tensor.val', '$ghost:trace'],
        'all_gather_object': ['$ghost:trace'], 'then': ['Future.will_be', 'Future.resolved'],
        'add_done_callback': [], 'time': ['$ghost:clock'],
    }
    ALLOC_KEYS = ['Tensor.val', 'Tensor.shape', 'Tensor.dtype', 'Tensor.device', 'Tensor.sid', 'Tensor.contig',
                  'Tensor.grad', '$ghost:next_sid', '$cls', 'Future.will_be', 'Future.resolved', 'Work.fut']

    def keys_of_modifies(self, mods):
        keys = set()
        for m in mods:
            if m == '*':
                return None
            if m.startswith('ghost:'):
                keys.add('$ghost:' + m[6:])
            elif m.startswith('global:'):
                for (mod, g) in GLOBALS:
                    if g == m[7:]:
                        keys.add(f'$global:{mod}.{g}')
            elif m == 'fresh':
                continue
            else:
                f = split_modifies(m)[0].rsplit('.', 1)[1]
                for (c, fld) in FIELDS:
                    if fld == f:
                        keys.add(f'{c}.{fld}')
        return keys

    def modified_heap_keys(self, stmts, _depth=0, _seen=None, name_classes=None, _allocs=None, local_kinds=None):
        """Heap keys possibly written by the statements (None = unknown => havoc all).  Static
        over-approximation: callees are resolved by name over all repository classes; callees under
        contract contribute their modifies clause, others are scanned recursively."""
        keys = set()
        unknown = [False]
        eng = self
        seen = _seen if _seen is not None else set()
        allocs = [False]

        name_classes = name_classes or {}

        def callee_keys(name, recv_cls=None):
            if recv_cls is not None and recv_cls in eng.repo.classes:
                fi0 = eng.repo.find_method(recv_cls, name)
                cands = [fi0] if fi0 is not None else []
                # subclasses may override
                for sub in eng.repo.subclasses(recv_cls):
                    fo = eng.repo.classes[sub].methods.get(name)
                    if fo is not None and fo not in cands:
                        cands.append(fo)
            else:
                cands = [fi for k, fi in eng.repo.funcs.items() if fi.qualname.split('.')[-1] == name and '.<' not in k]
            # no function of the repository is recursive (a recursive call would be `unsupported` when
            # executed): the function under verification is not a candidate callee of its own loops
            cands = [fi for fi in cands if fi.key != eng.fi.key]
            if not cands:
                return False
            for fi in cands:
                if fi.key in seen:
                    continue
                seen.add(fi.key)
                c = REGISTRY.get(fi.key)
                if c is not None and c.mode in ('contract', 'bounded') :
                    ks = eng.keys_of_modifies(list(c.modifies) + [t for t, _ in c.ghost_sets])
                    if ks is None:
                        unknown[0] = True
                    else:
                        keys.update(ks)
                        allocs[0] = True
                elif _depth < 6:
                    ks = eng.modified_heap_keys(body_without_docstring(fi.node), _depth + 1, seen, _allocs=allocs)
                    if ks is None:
                        unknown[0] = True
                    else:
                        keys.update(ks)
                else:
                    unknown[0] = True
            return True

        def fields_named(attr):
            return [f'{c}.{f}' for (c, f) in FIELDS if f == attr]

        class Vis(ast.NodeVisitor):
            def visit_Attribute(s, n):
                if isinstance(n.ctx, ast.Store):
                    keys.update(fields_named(n.attr))
                    # property setters
                    for ci in eng.repo.classes.values():
                        if n.attr in ci.setters:
                            callee = ci.setters[n.attr]
                            if callee.key not in seen:
                                seen.add(callee.key)
                                ks = eng.modified_heap_keys(body_without_docstring(callee.node), _depth + 1, seen, _allocs=allocs)
                                if ks is None:
                                    unknown[0] = True
                                else:
                                    keys.update(ks)
                else:
                    for ci in eng.repo.classes.values():
                        fi = ci.methods.get(n.attr)
                        if fi is not None and fi.is_property and fi.key not in seen:
                            seen.add(fi.key)
                            c = REGISTRY.get(fi.key)
                            if c is not None and c.mode == 'contract':
                                ks = eng.keys_of_modifies(list(c.modifies) + [t for t, _ in c.ghost_sets])
                            else:
                                ks = eng.modified_heap_keys(body_without_docstring(fi.node), _depth + 1, seen, _allocs=allocs)
                            if ks is None:
                                unknown[0] = True
                            else:
                                keys.update(ks)
                s.generic_visit(n)

            def visit_Call(s, n):
                name = None
                if isinstance(n.func, ast.Attribute):
                    name = n.func.attr
                elif isinstance(n.func, ast.Name):
                    name = n.func.id
                s.generic_visit(n)
                if name is None:
                    unknown[0] = True
                    return
                if name in eng.LIB_MUTATORS:
                    keys.update(eng.LIB_MUTATORS[name])
                    allocs[0] = True
                    return
                if name.endswith('_') and not name.endswith('__') and ('Tensor', name) in eng.T.METHODS:
                    keys.add('Tensor.val')        # in-place tensor method
                    allocs[0] = True
                    return
                # container methods on fields / globals
                if isinstance(n.func, ast.Attribute) and name in (
                        'append', 'extend', 'clear', 'pop', 'add', 'update', 'insert'):
                    base = n.func.value
                    while isinstance(base, ast.Subscript):
                        base = base.value
                    if isinstance(base, ast.Attribute):
                        keys.update(fields_named(base.attr))
                    elif isinstance(base, ast.Name):
                        for (m, g) in GLOBALS:
                            if g == base.id:
                                keys.add(f'$global:{m}.{g}')
                    return
                if name in eng.B.PURE_NAMES:
                    return
                recv_cls = None
                if isinstance(n.func, ast.Attribute) and isinstance(n.func.value, ast.Name):
                    recv_cls = name_classes.get(n.func.value.id)
                if callee_keys(name, recv_cls):
                    return
                if name in eng.repo.classes:
                    allocs[0] = True
                    callee_keys('__init__') if False else None
                    init = eng.repo.find_method(name, '__init__')
                    if init is not None and init.key not in seen:
                        seen.add(init.key)
                        ks = eng.modified_heap_keys(body_without_docstring(init.node), _depth + 1, seen, _allocs=allocs)
                        if ks is None:
                            unknown[0] = True
                        else:
                            keys.update(ks)
                    return
                # library functions / tensor methods: allocate fresh objects only
                allocs[0] = True

            def visit_Subscript(s, n):
                if isinstance(n.ctx, ast.Store):
                    base = n.value
                    while isinstance(base, ast.Subscript):
                        base = base.value
                    if isinstance(base, ast.Attribute):
                        keys.update(fields_named(base.attr))
                    elif isinstance(base, ast.Name):
                        for (m, g) in GLOBALS:
                            if g == base.id:
                                keys.add(f'$global:{m}.{g}')
                s.generic_visit(n)

            def visit_BinOp(s, n):
                allocs[0] = True      # tensor arithmetic allocates
                s.generic_visit(n)

            def visit_AugAssign(s, n):
                # `t op= x` writes t's storage in place when t is a tensor
                allocs[0] = True
                t = n.target
                scalar = False
                if isinstance(t, ast.Attribute):
                    ks_ = [k_ for (c_, f_), k_ in FIELDS.items() if f_ == t.attr]
                    scalar = bool(ks_) and all(k_ in (KInt, KReal, KBool, KStr) for k_ in ks_)
                elif isinstance(t, ast.Name) and _depth == 0 and local_kinds is not None:
                    scalar = local_kinds.get(t.id) in (KInt, KReal, KBool, KStr)
                elif isinstance(t, ast.Subscript):
                    base = t.value
                    if isinstance(base, ast.Name) and _depth == 0 and local_kinds is not None:
                        bk = local_kinds.get(base.id)
                        scalar = isinstance(bk, (KDict, KList)) and getattr(bk, 'val', getattr(bk, 'elem', None)) in (KInt, KReal, KBool, KStr)
                    elif isinstance(base, ast.Attribute):
                        ks_ = [k_ for (c_, f_), k_ in FIELDS.items() if f_ == base.attr]
                        scalar = bool(ks_) and all(isinstance(k_, (KDict, KList)) and getattr(k_, 'val', getattr(k_, 'elem', None)) in (KInt, KReal, KBool, KStr) for k_ in ks_)
                if not scalar:
                    keys.add('Tensor.val')
                s.generic_visit(n)

        for st_ in stmts:
            Vis().visit(st_)
        if _allocs is not None:
            _allocs[0] = _allocs[0] or allocs[0]
        if unknown[0]:
            return None
        if _depth == 0:
            # keys written only as fields of objects allocated by the statements themselves
            self._alloc_only = (set(self.ALLOC_KEYS) - keys) if allocs[0] else set()
            if allocs[0]:
                keys.update(self.ALLOC_KEYS)
        return keys

    def concrete_int(self, t):
        t = z3.simplify(t)
        if z3.is_int_value(t):
            return t.as_long()
        return None

    def iter_sequence(self, it: V, st: State):
        """Return (length term, at(i) -> V) for an iterable value."""
        k = it.kind
        if isinstance(k, KList):
            lo = ListOps(k)
            return lo.len(it.term), (lambda i: self.wf(st, V(k.elem, lo.at(it.term, i))))
        if isinstance(k, KTuple):
            items = tuple_items(it)
            kinds = set(map(repr, k.items))

            def at(i):
                ci = self.concrete_int(i)
                if ci is not None:
                    return items[ci]
                if len(kinds) != 1:
                    raise Unsupported('symbolic index into heterogeneous tuple')
                acc = items[-1]
                for j in range(len(items) - 2, -1, -1):
                    acc = merge(i == j, items[j], acc)
                return acc
            return z3.IntVal(len(items)), at
        if isinstance(k, KDict):
            ops = DictOps(k)
            return ops.n(it.term), (lambda i: self.wf(st, V(k.key, z3.Select(ops.keys(it.term), i))))
        if it.meta is not None and hasattr(it.meta, 'iter_sequence'):
            return it.meta.iter_sequence(self, st)
        raise Unsupported(f'iteration over {k!r}')

    def wf(self, st, v):
        self.assume_wellformed(st, v)
        return v

    def stmt_While(self, s, st):
        raise Unsupported('while loop')

    # ------------------------------------------------------------------ expressions
    def eval(self, e, st: State) -> V:
        if st.dead and not self.spec_mode:
            return NONE
        m = getattr(self, 'expr_' + type(e).__name__, None)
        if m is None:
            raise Unsupported(f'expression {type(e).__name__}: {ast.unparse(e)}')
        return m(e, st)

    def expr_Constant(self, e, st):
        c = e.value
        if c is None:
            return NONE
        if isinstance(c, bool):
            return BoolV(c)
        if isinstance(c, int):
            return IntV(c)
        if isinstance(c, float):
            return RealV(c)
        if isinstance(c, str):
            return StrV(c)
        raise Unsupported(f'constant {c!r}')

    def expr_JoinedStr(self, e, st):
        # f-strings: concrete when every part is a concrete string, else opaque text (messages)
        parts = []
        for p in e.values:
            if isinstance(p, ast.Constant) and isinstance(p.value, str):
                parts.append(p.value)
            elif isinstance(p, ast.FormattedValue) and p.format_spec is None and p.conversion == -1 \
                    and isinstance(p.value, ast.Name) and p.value.id in st.env \
                    and st.env[p.value.id] is not None and isinstance(st.env[p.value.id].meta, str):
                parts.append(st.env[p.value.id].meta)
            else:
                return V(KStr, z3.Const(fresh_name('fstr'), Vm.StrS))
        return StrV(''.join(parts))

    def expr_Name(self, e, st):
        name = e.id
        if name in st.env:
            v = st.env[name]
            if v is None:
                raise Unsupported(f'variable {name} has incompatible kinds on different paths')
            return v
        if self.spec_mode:
            if name == 'result':
                if self._spec_result is None:
                    raise SpecError('result used outside ensures')
                return self._spec_result
            if name in getattr(self, 'let_nodes', {}):
                return self.eval(self.let_nodes[name], st)
            if name in SPEC_FUNCS:
                return meta_value(Builtin(name, SPEC_FUNCS[name]))
            if name in SPEC_DEFS:
                return meta_value(Builtin(name, self.spec_def_caller(name)))
        return self.resolve_global(name, st)

    def resolve_global(self, name, st):
        fr = self.frames[-1] if self.frames else None
        mod = fr.module if fr else self.fi.module
        if (mod, name) in GLOBALS:
            return self.load_global(name, st)
        # module-level function / class in the same module
        key = f'{mod}:{name}'
        if key in self.repo.funcs:
            return Closure(self.repo.funcs[key].node, {}, mod, name, fi=self.repo.funcs[key]).value()
        if name in self.repo.classes and (self.repo.classes[name].module == mod
                                          or self.repo.imports.get(mod, {}).get(name, '').endswith('.' + name)):
            return meta_value(ClassRef(name))
        imp = self.repo.imports.get(mod, {}).get(name)
        if imp:
            # repo function imported by name
            m, _, n = imp.rpartition('.')
            k2 = f'{m}:{n}'
            if k2 in self.repo.funcs:
                return Closure(self.repo.funcs[k2].node, {}, m, n, fi=self.repo.funcs[k2]).value()
            if n in self.repo.classes:
                return meta_value(ClassRef(n))
            if n in self.repo.module_globals.get(m, {}):
                # module-level constant of another repository module (e.g. kfac.distributed.Future)
                self.frames.append(Frame(fi=None, module=m, self_cls=None))
                try:
                    return self.eval(self.repo.module_globals[m][n], st)
                finally:
                    self.frames.pop()
            b = self.B.lookup(imp)
            if b is not None:
                return b
            return meta_value(ModuleRef(imp))
        if name in self.repo.module_globals.get(mod, {}):
            node = self.repo.module_globals[mod][name]
            b = self.B.lookup(f'{mod}.{name}')
            if b is not None:
                return b
            if isinstance(node, (ast.Constant, ast.Tuple, ast.Attribute, ast.Name, ast.Set)):
                return self.eval(node, st)
        b = self.B.lookup(name) or self.B.lookup(f'{mod}.{name}')
        if b is not None:
            return b
        if self.spec_mode and name in self.repo.classes:
            return meta_value(ClassRef(name))       # contracts may name any repository class
        raise Unsupported(f'unresolved name {name} in {mod}')

    def expr_Attribute(self, e, st):
        # dotted module paths (torch.distributed.barrier, math.sqrt, ...)
        base = self.eval(e.value, st)
        return self.getattr(base, e.attr, st, node=e)

    def getattr(self, base: V, attr, st, node=None):
        m = base.meta
        if isinstance(m, ModuleRef):
            dotted = f'{m.dotted}.{attr}'
            b = self.B.lookup(dotted)
            if b is not None:
                return b
            if attr in self.repo.classes:
                return meta_value(ClassRef(attr))
            return meta_value(ModuleRef(dotted))
        if isinstance(m, ClassRef):
            ci = self.repo.classes.get(m.name)
            if ci is not None and 'Enum' in ci.bases:
                for i, stt in enumerate(x for x in ci.node.body if isinstance(x, ast.Assign)):
                    if stt.targets[0].id == attr:
                        addr = 900000 + 1000 * sorted(self.repo.classes).index(m.name) + i + 1
                        return V(KRef(m.name), z3.IntVal(addr))
            b = self.B.lookup(f'{m.name}.{attr}')
            if b is not None:
                return b
            fi = self.repo.find_method(m.name, attr) if m.name in self.repo.classes else None
            if fi is not None:
                return Closure(fi.node, {}, fi.module, fi.qualname, fi=fi).value()
            if attr == '__name__':
                return StrV(m.name)
            raise Unsupported(f'class attribute {m.name}.{attr}')
        if isinstance(m, Closure) and attr == '__name__':
            return StrV(m.qual.split('.')[-1])
        if base.kind == KFn and m is None and attr == '__name__':
            f = self.uf_cache.setdefault('fn_name', z3.Function('fn_name', z3.IntSort(), Vm.StrS))
            return V(KStr, f(base.term))
        if isinstance(base.kind, KRef):
            cls = base.kind.cls
            if cls in self.repo.classes:
                fi = self.repo.find_method(cls, attr)
                if fi is not None:
                    if fi.is_property:
                        return self.call_repo(fi, [base], {}, st)
                    return Closure(fi.node, {}, fi.module, fi.qualname, self_v=base, fi=fi).value()
            # library object methods / properties
            b = self.B.lookup_method(self, st, base, attr)
            if b is not None:
                return b
            if cls == 'Tensor':
                r = self.T.tensor_attr(self, st, base, attr)
                if r is not None:
                    return r
            return self.read_field(st, base, attr)
        b = self.B.lookup_method(self, st, base, attr)
        if b is not None:
            return b
        if base.kind == KDyn:
            # attribute of a dynamically typed value: unknown (uninterpreted function of the object)
            f = self.uf_cache.setdefault('dynattr_' + attr, z3.Function('dynattr_' + attr, DynS, DynS))
            return DynV(f(base.term))
        raise Unsupported(f'attribute {attr} of {base.kind!r}')

    def expr_BoolOp(self, e, st):
        is_and = isinstance(e.op, ast.And)
        # passive form: evaluate operands left to right; each later operand under the guard
        # that the earlier ones did not short-circuit.  Operands may have effects: fork + merge.
        first = self.eval(e.values[0], st)
        acc = first
        for nxt in e.values[1:]:
            c = self.truthy(acc)
            go = c if is_and else z3.Not(c)
            a = st.copy()
            a.add(go)
            if a.dead:
                continue
            v2 = self.eval(nxt, a)
            b = st.copy()
            b.add(z3.Not(go))
            if self.spec_mode:
                # no effects in spec mode; plain ite
                acc = self.merge_vals(go, v2, acc)
                continue
            merged = self.merge_states(go, a, b)
            acc = self.merge_vals(go, v2, acc)
            st.assign_from(merged)
        return acc

    def merge_vals(self, c, a, b):
        if a.kind == KBool and b.kind == KBool:
            return BoolV(z3.If(c, a.term, b.term))
        return merge(c, a, b)

    def expr_IfExp(self, e, st):
        c = z3.simplify(self.truthy(self.eval(e.test, st)))
        if z3.is_true(c):
            return self.eval(e.body, st)
        if z3.is_false(c):
            return self.eval(e.orelse, st)
        a, b = st.copy(), st.copy()
        a.add(c)
        b.add(z3.Not(c))
        va = self.eval(e.body, a)
        vb = self.eval(e.orelse, b)
        if not self.spec_mode:
            st.assign_from(self.merge_states(c, a, b))
        if a.dead and not self.spec_mode:
            return vb
        if b.dead and not self.spec_mode:
            return va
        return self.merge_vals(c, va, vb)

    def expr_UnaryOp(self, e, st):
        v = self.eval(e.operand, st)
        if isinstance(e.op, ast.Not):
            return BoolV(z3.Not(self.truthy(v)))
        if isinstance(e.op, ast.USub):
            if v.kind == KInt:
                return IntV(-v.term)
            if v.kind == KReal:
                return RealV(-v.term)
            if v.kind == KBool:
                return IntV(-z3.If(v.term, 1, 0))
            if v.kind == KDyn:
                return self.binop('Sub', IntV(0), v, st)
        if isinstance(e.op, ast.UAdd):
            return v
        raise Unsupported(f'unary {type(e.op).__name__} on {v.kind!r}')

    def expr_BinOp(self, e, st):
        a = self.eval(e.left, st)
        b = self.eval(e.right, st)
        return self.binop(type(e.op).__name__, a, b, st)

    def expr_Compare(self, e, st):
        left = self.eval(e.left, st)
        result = None
        guard = None
        cur = st
        for op, rnode in zip(e.ops, e.comparators):
            if guard is not None:
                # chained comparison short-circuits: later operands evaluated under guard
                sub = st.copy()
                sub.add(guard)
                right = self.eval(rnode, sub)
                c = self.compare(type(op).__name__, left, right, sub)
                result = z3.And(result, z3.Implies(guard, c)) if True else None
                guard = z3.And(guard, c)
            else:
                right = self.eval(rnode, st)
                c = self.compare(type(op).__name__, left, right, st)
                result = c
                guard = c
            left = right
        return BoolV(result)

    def expr_Tuple(self, e, st):
        return TupV([self.eval(x, st) for x in e.elts])

    def expr_List(self, e, st):
        items = [self.eval(x, st) for x in e.elts]
        return self.make_list(items)

    def make_list(self, items, elem_kind=None):
        if not items:
            k = elem_kind or KDyn
            return V(KList(k), ListOps(KList(k)).empty(), meta='empty')
        k = elem_kind or self.common_kind([i.kind for i in items])
        items = [coerce(i, k) for i in items]
        return V(KList(k), ListOps(KList(k)).from_items([i.term for i in items]))

    def common_kind(self, kinds):
        ks = set(kinds)
        if len(ks) == 1:
            return kinds[0]
        if all(isinstance(k, KRef) or k == KNone for k in ks):
            cl = {k.cls for k in ks if isinstance(k, KRef)}
            return KRef(cl.pop() if len(cl) == 1 else None)
        return KDyn

    def expr_Dict(self, e, st):
        if not e.keys:
            return V(KDict(KStr, KDyn), None, meta='emptydict')
        ks = [self.eval(k, st) for k in e.keys]
        vs = [self.eval(v, st) for v in e.values]
        kk = self.common_kind([k.kind for k in ks])
        vk = self.common_kind([v.kind for v in vs])
        kind = KDict(kk, vk)
        ops = DictOps(kind)
        d = ops.empty()
        for k, v in zip(ks, vs):
            d = ops.set(d, coerce(k, kk).term, coerce(v, vk).term)
        meta = None
        if all(isinstance(k.meta, str) for k in ks) and len({k.meta for k in ks}) == len(ks):
            meta = StaticDict(list(zip(ks, vs)))
        return V(kind, z3.simplify(d), meta=meta)

    def expr_Subscript(self, e, st):
        base = self.eval(e.value, st)
        if isinstance(base.kind, KRef) and base.kind.cls is None and isinstance(e.slice, ast.Tuple):
            self.require(st, self.isinstance_term(st, base, 'Tensor'), 'TypeError', 'tensor expected')
            base = V(KRef('Tensor'), base.term)
        if self.T.is_tensor(base):
            return self.T.tensor_getitem(self, st, base, e)
        if isinstance(e.slice, ast.Slice):
            lo = self.eval(e.slice.lower, st) if e.slice.lower is not None else None
            hi = self.eval(e.slice.upper, st) if e.slice.upper is not None else None
            if e.slice.step is not None:
                raise Unsupported('slice step')
            return self.slice(base, lo, hi, st)
        if isinstance(base.meta, (ClassRef, ModuleRef, Builtin)):
            # typing subscripts (List[int]) in casts
            return base
        k = self.eval(e.slice, st)
        if isinstance(base.kind, KDict) and base.kind.default is not None and not self.spec_mode:
            # defaultdict: reading a missing key inserts the default
            ops = DictOps(base.kind)
            kk = coerce(k, base.kind.key)
            dv = self.default_value(base.kind)
            has = ops.contains(base.term, kk.term)
            newd = V(base.kind, z3.If(has, base.term, ops.set(base.term, kk.term, dv.term)))
            self.write_back(e.value, newd, st)
            return self.wf(st, V(base.kind.val, z3.If(has, ops.get(base.term, kk.term), dv.term)))
        return self.getitem(base, k, st)

    def default_value(self, kind):
        d = kind.default
        if d == 'none':
            return coerce(NONE, kind.val)
        if isinstance(d, int):
            return coerce(IntV(d), kind.val)
        raise Unsupported('defaultdict factory')

    def getitem(self, base: V, k: V, st):
        kd = base.kind
        if isinstance(kd, KRecord):
            if not isinstance(k.meta, str) or k.meta not in kd.fields:
                raise Unsupported('record dict subscript must be one of its constant keys')
            self.require(st, kd.present(base.term, k.meta), 'KeyError', f'missing key {k.meta}')
            return self.wf(st, V(kd.fields[k.meta], kd.value(base.term, k.meta)))
        if isinstance(kd, KDict):
            if base.meta == 'emptydict':
                self.require(st, z3.BoolVal(False), 'KeyError')
                return fresh(kd.val)
            ops = DictOps(kd)
            kk = coerce(k, kd.key)
            if base.meta and isinstance(base.meta, dict) and base.meta.get('default') is not None:
                # defaultdict read: inserts default when missing (value semantics: caller writes back)
                raise Unsupported('defaultdict read outside of modelled pattern')
            self.require(st, ops.contains(base.term, kk.term), 'KeyError', 'dict lookup')
            return self.wf(st, V(kd.val, ops.get(base.term, kk.term)))
        if isinstance(kd, KList):
            i = self.as_int(k, st)
            lo = ListOps(kd)
            n = lo.len(base.term)
            i2 = self.norm_index(i, n)
            self.require(st, z3.And(i2 >= 0, i2 < n), 'IndexError', 'list index')
            return self.wf(st, V(kd.elem, lo.at(base.term, i2)))
        if isinstance(kd, KTuple):
            items = tuple_items(base)
            ci = self.concrete_int(self.as_int(k, st))
            if ci is None:
                n, at = self.iter_sequence(base, st)
                i = self.as_int(k, st)
                self.require(st, z3.And(i >= 0, i < n), 'IndexError')
                return at(i)
            if not -len(items) <= ci < len(items):
                self.require(st, z3.BoolVal(False), 'IndexError')
                return items[0]
            return items[ci]
        b = self.B.getitem(self, st, base, k)
        if b is not None:
            return b
        raise Unsupported(f'subscript of {kd!r}')

    def norm_index(self, i, n):
        si = z3.simplify(i)
        if self.spec_mode or (z3.is_int_value(si) and si.as_long() >= 0):
            return i      # contracts index from the front only (negative indices are not used in specs)
        return z3.If(i < 0, i + n, i)

    def slice(self, base: V, lo, hi, st):
        if isinstance(base.kind, KList):
            lops = ListOps(base.kind)
            n = lops.len(base.term)

            def norm(v, default):
                if v is None or v.kind == KNone:
                    return default
                i = self.as_int(v, st)
                i = z3.If(i < 0, z3.If(i + n < 0, 0, i + n), z3.If(i > n, n, i))
                return i
            a = norm(lo, z3.IntVal(0))
            b = norm(hi, n)
            ln = z3.If(b > a, b - a, 0)
            return V(base.kind, lops.slice(base.term, a, ln))
        b = self.B.slice(self, st, base, lo, hi)
        if b is not None:
            return b
        raise Unsupported(f'slice of {base.kind!r}')

    def expr_Lambda(self, e, st):
        fr = self.frames[-1]
        return Closure(e, st.env, fr.module, '<lambda>').value()

    def expr_Call(self, e, st):
        return self.eval_call(e, st)

    def expr_ListComp(self, e, st):
        return self.B.comprehension(self, st, e, 'list')

    def expr_SetComp(self, e, st):
        return self.B.comprehension(self, st, e, 'set')

    def expr_DictComp(self, e, st):
        # {k: v for target in iterable} whose contract gives the loop an invariant is executed as the loop it is:
        #     __compN = {}; for target in iterable: __compN[k] = v
        # (needed when v has effects -- e.g. a method call that awaits futures -- or the target is a tuple)
        fr = self.frames[-1]
        probe = ast.For(target=e.generators[0].target, iter=e.generators[0].iter, body=[], orelse=[]) if len(e.generators) == 1 else None
        if probe is not None:
            probe._origin_id = id(e)
        if (probe is not None and not e.generators[0].ifs and fr.contract is not None
                and any(kk.startswith('iter:') for kk in fr.contract.loops)
                and self.find_loop_spec(fr, probe, '?') is not None):
            n_ = fr.__dict__.setdefault('comp_counter', 0)
            fr.__dict__['comp_counter'] = n_ + 1
            tmp = f'__comp{n_}'         # (numbered in execution order within the function)
            self.assign(ast.Name(id=tmp, ctx=ast.Store()), V(KDict(KStr, KDyn), None, meta='emptydict'), st)
            g = e.generators[0]
            body = ast.Assign(targets=[ast.Subscript(value=ast.Name(id=tmp, ctx=ast.Load()), slice=e.key, ctx=ast.Store())],
                              value=e.value, lineno=e.lineno, col_offset=0)
            loop = ast.For(target=g.target, iter=g.iter, body=[body], orelse=[], lineno=e.lineno, col_offset=0)
            ast.fix_missing_locations(loop)
            loop._origin_id = id(e)
            tnames = [x.id for x in ast.walk(g.target) if isinstance(x, ast.Name)]
            saved_t = {n_: st.env.get(n_) for n_ in tnames}
            self.stmt_For(loop, st)
            for n_, v_ in saved_t.items():       # comprehension variables do not leak (Python 3)
                if v_ is None:
                    st.env.pop(n_, None)
                else:
                    st.env[n_] = v_
            return st.env.pop(tmp)
        return self.B.comprehension(self, st, e, 'dict')

    def expr_GeneratorExp(self, e, st):
        return self.B.comprehension(self, st, e, 'gen')

    def expr_Set(self, e, st):
        raise Unsupported('set literal')

    def expr_Starred(self, e, st):
        raise Unsupported('starred expression')

    # ------------------------------------------------------------------ operators
    def truthy(self, v: V):
        k = v.kind
        if k == KBool:
            return v.term
        if k == KInt:
            return v.term != 0
        if k == KReal:
            return v.term != 0
        if k == KNone:
            return z3.BoolVal(False)
        if isinstance(k, KRef) and k.cls == 'Tensor' and getattr(self, '_truth_state', None) is not None:
            return self.T.tensor_truth(self, self._truth_state, v)
        if isinstance(k, KRef):
            return v.term != 0
        if isinstance(k, KList):
            return ListOps(k).len(v.term) > 0
        if isinstance(k, KDict):
            return DictOps(k).n(v.term) > 0
        if isinstance(k, KTuple):
            return z3.BoolVal(len(k.items) > 0)
        if k == KFn:
            return z3.BoolVal(True)
        if k == KDyn:
            t = v.term
            return z3.If(DynS.is_none(t), False,
                         z3.If(DynS.is_bool(t), DynS.bval(t),
                               z3.If(DynS.is_int(t), DynS.ival(t) != 0,
                                     z3.If(DynS.is_real(t), DynS.rval(t) != 0, True))))
        raise Unsupported(f'truthiness of {k!r}')

    def as_int(self, v: V, st):
        if v.kind == KInt:
            return v.term
        if v.kind == KBool:
            return z3.If(v.term, 1, 0)
        if v.kind == KDyn:
            self.require(st, Vm.dyn_is_intlike(v.term), 'TypeError', 'int expected')
            return Vm.dyn_to_int(v.term)
        raise Unsupported(f'int expected, got {v.kind!r}')

    def is_numeric_kind(self, k):
        return k in (KInt, KReal, KBool)

    def num_parts(self, v: V, st, exc='TypeError'):
        """Return (is_int condition, int term, real term) for a numeric value."""
        k = v.kind
        if k == KInt:
            return z3.BoolVal(True), v.term, z3.ToReal(v.term)
        if k == KBool:
            t = z3.If(v.term, 1, 0)
            return z3.BoolVal(True), t, z3.ToReal(t)
        if k == KReal:
            return z3.BoolVal(False), None, v.term
        if k == KDyn:
            self.require(st, Vm.dyn_is_num(v.term), exc, 'numeric operand expected')
            return Vm.dyn_is_intlike(v.term), Vm.dyn_to_int(v.term), Vm.dyn_to_real(v.term)
        if k == KNone or isinstance(k, (KRef, KList, KDict, KTuple)) or k in (KStr, KFn):
            self.require(st, z3.BoolVal(False), exc, f'numeric operand expected, got {k!r}')
            return z3.BoolVal(True), z3.IntVal(0), z3.RealVal(0)
        raise Unsupported(f'numeric operand of kind {k!r}')

    def binop(self, op, a: V, b: V, st) -> V:
        r = self.B.binop(self, st, op, a, b)
        if r is not None:
            return r
        if self.T.is_tensor(a) or self.T.is_tensor(b) or any(
                isinstance(x.kind, KRef) and x.kind.cls is None for x in (a, b)):
            ops = []
            for x in (a, b):
                if isinstance(x.kind, KRef) and x.kind.cls is None:
                    self.require(st, self.isinstance_term(st, x, 'Tensor'), 'TypeError', 'tensor operand expected')
                    x = V(KRef('Tensor'), x.term)
                ops.append(x)
            return self.T.tensor_binop(self, st, op, ops[0], ops[1])
        if isinstance(a.kind, KList) and isinstance(b.kind, KList) and op == 'Add':
            if a.meta == 'empty':
                a = coerce(a, b.kind)
            if b.meta == 'empty':
                b = coerce(b, a.kind)
            if a.kind != b.kind:
                raise Unsupported('list + list of different kinds')
            return V(a.kind, ListOps(a.kind).concat(a.term, b.term))
        if isinstance(a.kind, KList) and op == 'Mult':
            lo = ListOps(a.kind)
            n = self.concrete_int(self.as_int(b, st))
            if n is not None and n <= 8:
                t = lo.empty()
                for _ in range(n):
                    t = lo.concat(t, a.term)
                return V(a.kind, t)
            # [x] * n with symbolic n: fresh list with quantified definition
            cnt = self.as_int(b, st)
            s = fresh(a.kind, 'rep')
            ln = z3.simplify(lo.len(a.term))
            if z3.is_int_value(ln) and ln.as_long() == 1:
                self.fact(st, lo.len(s.term) == z3.If(cnt > 0, cnt, 0))
                j = z3.Int(fresh_name('j'))
                self.fact(st, Vm.forall([j], z3.Implies(z3.And(j >= 0, j < lo.len(s.term)),
                                                        lo.at(s.term, j) == z3.simplify(lo.at(a.term, 0))),
                                        patterns=[lo.at(s.term, j)]))
                return s
            raise Unsupported('list * symbolic int for non-unit list')
        if a.kind == KSetInt and b.kind == KSetInt:
            if op == 'BitAnd':
                return V(KSetInt, z3.SetIntersect(a.term, b.term))
            if op == 'BitOr':
                return V(KSetInt, z3.SetUnion(a.term, b.term))
            if op == 'Sub':
                return V(KSetInt, z3.SetDifference(a.term, b.term))
        ai, aI, aR = self.num_parts(a, st)
        bi, bI, bR = self.num_parts(b, st)
        both_int = z3.simplify(z3.And(ai, bi))
        static_int = z3.is_true(both_int)
        static_real = z3.is_false(both_int)

        def result(int_term, real_term):
            if static_int and int_term is not None:
                return IntV(int_term)
            if static_real or int_term is None:
                return RealV(real_term)
            return DynV(z3.If(both_int, DynS.int(int_term), DynS.real(real_term)))

        fm = self.contract.float_mode
        if op == 'Add':
            return result(aI + bI if aI is not None and bI is not None else None, self.fop('add', aR, bR))
        if op == 'Sub':
            return result(aI - bI if aI is not None and bI is not None else None, self.fop('sub', aR, bR))
        if op == 'Mult':
            return result(self.int_mul(aI, bI) if aI is not None and bI is not None else None, self.fop('mul', aR, bR))
        if op == 'Div':
            self.require(st, bR != 0, 'ZeroDivisionError', 'division')
            return RealV(self.fop('div', aR, bR))
        if op in ('FloorDiv', 'Mod'):
            if not static_int:
                # float (or dynamically typed) operands: the float result is an uninterpreted function
                self.require(st, bR != 0, 'ZeroDivisionError', op)
                fname = 'fmod' if op == 'Mod' else 'ffloordiv'
                f = self.uf_cache.setdefault(fname, z3.Function(fname, z3.RealSort(), z3.RealSort(), z3.RealSort()))
                if static_real or aI is None or bI is None:
                    return RealV(f(aR, bR))
                q, r = self.divmod_witness(aI, bI, st)
                return DynV(z3.If(both_int, DynS.int(r if op == 'Mod' else q), DynS.real(f(aR, bR))))
            self.require(st, bI != 0, 'ZeroDivisionError', op)
            if not z3.is_int_value(z3.simplify(bI)):
                # symbolic divisor: a == b*q + r with the sign rule of Python's floor division
                # (product form; div/mod terms with a symbolic divisor are opaque to the solver)
                q, r = self.divmod_witness(aI, bI, st)
                return IntV(r if op == 'Mod' else q)
            # python floor semantics: z3 div/mod are euclidean (remainder >= 0)
            pm = aI % bI                      # z3: 0 <= pm < |b|
            pymod = z3.If(z3.And(bI < 0, pm != 0), pm + bI, pm)
            if op == 'Mod':
                return IntV(pymod)
            # floor(a/b): (a - pymod) / b exactly
            return IntV((aI - pymod) / bI)
        if op == 'Pow':
            n = self.concrete_int(bI) if bI is not None else None
            if n is not None and 2 <= n <= 4 and not static_int and not z3.is_rational_value(z3.simplify(aR)):
                # symbolic non-integer base: an opaque power function instead of a product (non-linear terms
                # make every arithmetic query slow; nothing here needs more than x ** n being a function of x)
                pw = self.uf_cache.setdefault(f'rpow{n}', z3.Function(f'rpow{n}', z3.RealSort(), z3.RealSort()))
                self.assumptions.add('x ** n for a symbolic float x is an uninterpreted function of x (same function in code and contracts)')
                return RealV(pw(aR)) if (static_real or aI is None) else DynV(z3.If(
                    both_int, DynS.int(z3.ToInt(pw(aR))), DynS.real(pw(aR))))
            if n is not None and 0 <= n <= 4:
                if n == 0:
                    return IntV(1)
                ti = aI
                tr = aR
                for _ in range(n - 1):
                    ti = ti * aI if aI is not None else None
                    tr = self.fop('mul', tr, aR)
                return result(ti if aI is not None else None, tr)
            raise Unsupported('general power')
        raise Unsupported(f'binary operator {op}')

    def divmod_witness(self, a, b, st):
        """Python floor division / modulo with a symbolic divisor: uninterpreted pydiv/pymod with the
        defining axiom a == b*pydiv(a,b) + pymod(a,b), 0 <= pymod < b (sign of b).  Closed uses get a
        ground instance of the axiom; uses under a binder enable the quantified axiom."""
        I = z3.IntSort()
        if 'pydiv' not in self.uf_cache:
            self.uf_cache['pydiv'] = z3.Function('pydiv', I, I, I)
            self.uf_cache['pymod'] = z3.Function('pymod', I, I, I)
            self.assumptions.add('x // y and x % y with symbolic y are characterised by x == y*q + r with 0 <= r < y (sign of y)')
        dv, md = self.uf_cache['pydiv'], self.uf_cache['pymod']

        product = 'divmod_product' in self.contract.theories

        def ax(x, y):
            q, r = dv(x, y), md(x, y)
            rng = z3.Or(z3.And(y > 0, r >= 0, r < y), z3.And(y < 0, r <= 0, r > y))
            # the defining product x == y*q + r is a non-linear term: stated only for contracts that opt in
            # (theories=['divmod_product']); elsewhere // and % by a symbolic divisor are functions with the
            # range fact only, which is all that schedule tests like `steps % interval == 0` need
            return z3.Implies(y != 0, z3.And(x == y * q + r, rng) if product else rng)
        if self.binders:
            if 'divmod_axiom' not in self.uf_cache:
                x, y = z3.Ints('dx dy')
                self.uf_cache['divmod_axiom'] = True
                self.facts.append(z3.ForAll([x, y], ax(x, y), patterns=[dv(x, y)]))
                self.facts.append(z3.ForAll([x, y], ax(x, y), patterns=[md(x, y)]))
        else:
            key = ('divmod', a.get_id(), b.get_id())
            if key not in self.uf_cache:
                self.uf_cache[key] = True
                self.facts.append(ax(a, b))
        return dv(a, b), md(a, b)

    def rangeset(self):
        """Canonical term for frozenset(range(a, b, s)) with witness-form membership axioms."""
        if 'rangeset' not in self.uf_cache:
            I = z3.IntSort()
            rs = z3.Function('rangeset', I, I, I, Vm.SetIntS)
            rw = z3.Function('rangewit', I, I, I, I, I)
            pt = z3.Function('rangept', I, I, I, I)
            a, b, s_, r, k = z3.Ints('ra rb rs rr rk')
            self.uf_cache['rangeset'] = rs
            self.uf_cache['rangept'] = pt
            self.uf_cache['rangewit'] = rw
            self.facts.append(Vm.forall([a, b, r], z3.Select(rs(a, b, 1), r) == z3.And(a <= r, r < b),
                                        patterns=[z3.Select(rs(a, b, 1), r)]))
            if 'strided_ranges' in self.contract.theories:
                self.facts.append(Vm.forall([a, b, s_, r], z3.Implies(
                    z3.And(z3.Select(rs(a, b, s_), r), s_ > 0),
                    z3.And(rw(a, b, s_, r) >= 0, r == a + rw(a, b, s_, r) * s_, r < b, r >= a)),
                    patterns=[z3.Select(rs(a, b, s_), r)]))
                self.facts.append(Vm.forall([a, s_, k], pt(a, s_, k) == a + k * s_, patterns=[pt(a, s_, k)]))
                self.facts.append(Vm.forall([a, b, s_, k], z3.Implies(
                    z3.And(k >= 0, pt(a, s_, k) < b, s_ > 0), z3.Select(rs(a, b, s_), pt(a, s_, k))),
                    patterns=[z3.MultiPattern(rs(a, b, s_), pt(a, s_, k))]))
                # derived fact RU (residue uniqueness): instance of the witness axiom + the arithmetic lemma
                # `a + w1*s == a2 + w2*s and 0 <= a, a2 < s  ==>  a == a2`, which is proved as a stand-alone
                # quantifier-free obligation (contracts/c06_assignment.py: lemma residue_unique)
                a2, b2 = z3.Ints('ra2 rb2')
                self.facts.append(z3.ForAll([a, b, a2, b2, s_, r], z3.Implies(
                    z3.And(z3.Select(rs(a, b, s_), r), z3.Select(rs(a2, b2, s_), r), a >= 0, a < s_, a2 >= 0, a2 < s_),
                    a == a2), patterns=[z3.MultiPattern(z3.Select(rs(a, b, s_), r), z3.Select(rs(a2, b2, s_), r))]))
                # derived facts RU3 / RU4: for 0 <= a < s, membership of r in range(a, b, s) is `r % s == a`
                # (same arithmetic lemma; links the set view with Python's % on ranks)
                I_ = z3.IntSort()
                if 'pymod' not in self.uf_cache:
                    self.uf_cache['pydiv'] = z3.Function('pydiv', I_, I_, I_)
                    self.uf_cache['pymod'] = z3.Function('pymod', I_, I_, I_)
                md = self.uf_cache['pymod']
                self.facts.append(z3.ForAll([a, b, s_, r], z3.Implies(
                    z3.And(z3.Select(rs(a, b, s_), r), a >= 0, a < s_), md(r, s_) == a),
                    patterns=[z3.Select(rs(a, b, s_), r)]))
                self.facts.append(z3.ForAll([a, b, s_, r], z3.Implies(
                    z3.And(r >= 0, r < b, s_ > 0, md(r, s_) == a), z3.Select(rs(a, b, s_), r)),
                    patterns=[z3.MultiPattern(rs(a, b, s_), md(r, s_))]))
                # derived fact RU2 (one member per window): two members of the same strided range that lie in
                # one contiguous window no longer than the stride are equal (lemma window_unique)
                r2, lo_, hi_ = z3.Ints('rr2 rlo rhi')
                self.facts.append(z3.ForAll([a, b, s_, r, r2, lo_, hi_], z3.Implies(
                    z3.And(z3.Select(rs(a, b, s_), r), z3.Select(rs(a, b, s_), r2), z3.Select(rs(lo_, hi_, 1), r),
                           z3.Select(rs(lo_, hi_, 1), r2), hi_ <= lo_ + s_, s_ > 0),
                    r == r2), patterns=[z3.MultiPattern(z3.Select(rs(a, b, s_), r), z3.Select(rs(a, b, s_), r2),
                                                        z3.Select(rs(lo_, hi_, 1), r), z3.Select(rs(lo_, hi_, 1), r2))]))
            self.assumptions.add('frozenset(range(a,b,s)) is the set {a + k*s | k >= 0, a + k*s < b} (witness-form axioms + derived residue-uniqueness / window-uniqueness facts)')
        return self.uf_cache['rangeset']

    def int_mul(self, a, b):
        """Integer product; of two symbolic factors it is an uninterpreted (commutative) function when the contract
        opts into `opaque_nonlinear` (byte counts etc.: only congruence is needed, and non-linear terms are costly)."""
        if ('opaque_nonlinear' in self.contract.theories and not getattr(self, 'in_lemma', False)
                and not z3.is_int_value(z3.simplify(a)) and not z3.is_int_value(z3.simplify(b))):
            if 'imul' not in self.uf_cache:
                f = z3.Function('imul', z3.IntSort(), z3.IntSort(), z3.IntSort())
                self.uf_cache['imul'] = f
                x, y = z3.Ints('imx imy')
                self.facts.append(z3.ForAll([x, y], f(x, y) == f(y, x), patterns=[f(x, y)]))
            return self.uf_cache['imul'](a, b)
        return a * b

    def fop(self, op, a, b):
        """Real-valued arithmetic on floats; mode R = exact reals, mode U = uninterpreted."""
        if self.contract.float_mode == 'U' and not (z3.is_rational_value(a) and z3.is_rational_value(b)):
            key = 'f' + op
            if key not in self.uf_cache:
                self.uf_cache[key] = z3.Function(key, z3.RealSort(), z3.RealSort(), z3.RealSort())
            return self.uf_cache[key](a, b)
        if ('opaque_nonlinear' in self.contract.theories and not getattr(self, 'in_lemma', False)
                and ((op == 'div' and not z3.is_rational_value(z3.simplify(b)))
                     or (op == 'mul' and not z3.is_rational_value(z3.simplify(a)) and not z3.is_rational_value(z3.simplify(b))))):
            # products / quotients of two symbolic floats as uninterpreted functions (the same in code and contract):
            # the control-flow level contracts that opt in need no arithmetic about them, and non-linear terms make
            # every query of the function slow
            key = 'r' + op
            if key not in self.uf_cache:
                self.uf_cache[key] = z3.Function(key, z3.RealSort(), z3.RealSort(), z3.RealSort())
            self.assumptions.add('products / quotients of two symbolic floats are uninterpreted in this function (theory opaque_nonlinear)')
            return self.uf_cache[key](a, b)
        return {'add': lambda: a + b, 'sub': lambda: a - b, 'mul': lambda: a * b,
                'div': lambda: a / b}[op]()

    def compare(self, op, a: V, b: V, st):
        r = self.B.compare(self, st, op, a, b)
        if r is not None:
            return r
        if op in ('Is', 'IsNot'):
            t = self.identical(a, b)
            return t if op == 'Is' else z3.Not(t)
        if op in ('Eq', 'NotEq'):
            t = self.equal(a, b, st)
            return t if op == 'Eq' else z3.Not(t)
        if op in ('In', 'NotIn'):
            t = self.contains(b, a, st)
            return t if op == 'In' else z3.Not(t)
        # ordering
        ai, aI, aR = self.num_parts(a, st)
        bi, bI, bR = self.num_parts(b, st)
        if z3.is_true(z3.simplify(z3.And(ai, bi))):
            x, y = aI, bI
        else:
            x, y = aR, bR
        return {'Lt': x < y, 'LtE': x <= y, 'Gt': x > y, 'GtE': x >= y}[op]

    def identical(self, a: V, b: V):
        if a.kind == KNone and b.kind == KNone:
            return z3.BoolVal(True)
        for x, y in ((a, b), (b, a)):
            if y.kind == KNone:
                if isinstance(x.kind, KRef):
                    return x.term == 0
                if x.kind == KDyn:
                    return DynS.is_none(x.term)
                if x.kind == KFn and x.meta is None:
                    return z3.BoolVal(False)
                return z3.BoolVal(False)
        if isinstance(a.kind, KRef) and isinstance(b.kind, KRef):
            return a.term == b.term
        if a.kind == KDyn or b.kind == KDyn:
            return to_dyn(a).term == to_dyn(b).term
        if a.kind == b.kind:
            return a.term == b.term
        return z3.BoolVal(False)

    def equal(self, a: V, b: V, st):
        ka, kb = a.kind, b.kind
        if self.is_numeric_kind(ka) and self.is_numeric_kind(kb):
            _, aI, aR = self.num_parts(a, st)
            _, bI, bR = self.num_parts(b, st)
            if aI is not None and bI is not None:
                return aI == bI
            return aR == bR
        if ka == KDyn or kb == KDyn:
            da, db = to_dyn(a).term, to_dyn(b).term
            both_num = z3.And(Vm.dyn_is_num(da), Vm.dyn_is_num(db))
            return z3.If(both_num, Vm.dyn_to_real(da) == Vm.dyn_to_real(db), da == db)
        if ka == kb:
            if isinstance(ka, KDict):
                return self.B.dict_equal(self, st, a, b)
            if isinstance(ka, KList):
                return ListOps(ka).eq(a.term, b.term)
            return a.term == b.term
        if isinstance(ka, KTuple) and isinstance(kb, KTuple):
            ia, ib = tuple_items(a), tuple_items(b)
            if len(ia) != len(ib):
                return z3.BoolVal(False)
            return z3.And(*[self.equal(x, y, st) for x, y in zip(ia, ib)])
        if isinstance(ka, KList) and isinstance(kb, KList):
            if a.meta == 'empty':
                return ListOps(kb).len(b.term) == 0
            if b.meta == 'empty':
                return ListOps(ka).len(a.term) == 0
        if isinstance(ka, KDict) and isinstance(kb, KDict):
            if b.meta == 'emptydict':
                return DictOps(ka).n(a.term) == 0
            if a.meta == 'emptydict':
                return DictOps(kb).n(b.term) == 0
        if (isinstance(ka, KRef) or ka == KNone) and (isinstance(kb, KRef) or kb == KNone):
            return a.term == b.term
        return z3.BoolVal(False)

    def contains(self, cont: V, x: V, st):
        k = cont.kind
        if isinstance(k, KRecord):
            if not isinstance(x.meta, str):
                raise Unsupported('record dict membership with a non-constant key')
            return k.present(cont.term, x.meta) if x.meta in k.fields else z3.BoolVal(False)
        if isinstance(k, KDict):
            if cont.meta == 'emptydict':
                return z3.BoolVal(False)
            return DictOps(k).contains(cont.term, coerce(x, k.key).term)
        if k == KSetInt:
            return z3.IsMember(self.as_int(x, st), cont.term)
        if isinstance(k, KList):
            xx = coerce(x, k.elem)
            return ListOps(k).contains(cont.term, xx.term)
        if isinstance(k, KTuple):
            return z3.Or(*[self.equal(i, x, st) for i in tuple_items(cont)])
        r = self.B.contains(self, st, cont, x)
        if r is not None:
            return r
        raise Unsupported(f'membership in {k!r}')

    # ------------------------------------------------------------------ calls
    def eval_call(self, e: ast.Call, st: State) -> V:
        # super().method(...)
        if (isinstance(e.func, ast.Attribute) and isinstance(e.func.value, ast.Call)
                and isinstance(e.func.value.func, ast.Name) and e.func.value.func.id == 'super'):
            fr = self.frames[-1]
            owner = fr.fi.cls if fr.fi else None
            selfv = st.env['self']
            dyn_cls = selfv.kind.cls
            fi = self.repo.find_method(dyn_cls, e.func.attr, after=owner)
            args, kwargs = self.eval_args(e, st)
            if fi is None:
                # object.__init__ etc.
                return NONE
            return self.call_repo(fi, [selfv] + args, kwargs, st)
        # spec-only forms
        if self.spec_mode and isinstance(e.func, ast.Name):
            n = e.func.id
            if n == 'old':
                saved_heap = st.heap
                s2 = st.copy()
                s2.heap = dict(self._spec_old.heap)
                s2.nxt = self._spec_old.nxt
                return self.eval(e.args[0], s2)
            if n == 'implies':
                a = self.truth(self.eval(e.args[0], st))
                b = self.truth(self.eval(e.args[1], st))
                return BoolV(z3.Implies(a, b))
            if n in ('all', 'any') and len(e.args) == 1 and isinstance(e.args[0], ast.GeneratorExp):
                return self.B.quantifier(self, st, e.args[0], n == 'all')
        fn = self.eval(e.func, st)
        args, kwargs = self.eval_args(e, st)
        if st.dead and not self.spec_mode:
            return NONE
        res = self.call_value(fn, args, kwargs, st, node=e)
        if res.meta is not None and isinstance(res.meta, self.B.Mutation):
            # in-place container method: write the new container value back through the l-value
            if self.spec_mode:
                raise SpecError('mutation in spec')
            if not isinstance(e.func, ast.Attribute):
                raise Unsupported('mutation through non-attribute call')
            if isinstance(e.func.value, (ast.Name, ast.Attribute, ast.Subscript)):
                self.refuse_alias_mutation(e.func.value, res.meta.new.kind, f'in-place .{e.func.attr}()')
                self.write_back(e.func.value, res.meta.new, st)
            # else: the receiver is a temporary; the mutated container is dropped
            return res.meta.result
        return res

    def eval_args(self, e: ast.Call, st):
        args = []
        for a in e.args:
            if isinstance(a, ast.Starred):
                v = self.eval(a.value, st)
                if isinstance(v.kind, KTuple):
                    args += tuple_items(v)
                elif v.meta is not None and hasattr(v.meta, 'star_items'):
                    args.append(V(v.kind, v.term, meta=('star', v.meta)))
                else:
                    raise Unsupported('*args of non-tuple')
            else:
                args.append(self.eval(a, st))
        kwargs = {}
        for kw in e.keywords:
            if kw.arg is None:
                v = self.eval(kw.value, st)
                if v.meta is not None and isinstance(v.meta, dict) and 'static_items' in v.meta:
                    kwargs.update(v.meta['static_items'])
                elif v.meta is not None and hasattr(v.meta, 'star_items'):
                    kwargs['**'] = v
                else:
                    raise Unsupported('**kwargs of non-static dict')
            else:
                kwargs[kw.arg] = self.eval(kw.value, st)
        return args, kwargs

    def call_value(self, fn: V, args, kwargs, st, node=None) -> V:
        m = fn.meta
        if isinstance(m, Vm.FnChoice):
            c = z3.simplify(m.cond)
            a, b = st.copy(), st.copy()
            a.add(c)
            b.add(z3.Not(c))
            ra = self.call_value(m.a, args, kwargs, a, node) if not a.dead else NONE
            rb = self.call_value(m.b, args, kwargs, b, node) if not b.dead else NONE
            st.assign_from(self.merge_states(c, a, b))
            if a.dead:
                return rb
            if b.dead:
                return ra
            return self.merge_vals(c, ra, rb)
        if isinstance(m, Builtin):
            return m.fn(self, st, args, kwargs)
        if isinstance(m, Closure):
            if m.fi is not None:
                a = ([m.self_v] if m.self_v is not None else []) + args
                return self.call_repo(m.fi, a, kwargs, st, closure=m)
            return self.inline(m.node, m.env, m.module, None, args, kwargs, st, qual=m.qual,
                               self_v=m.self_v)
        if isinstance(m, ClassRef):
            return self.construct(m.name, args, kwargs, st)
        # unknown callable: uninterpreted, pure, total, deterministic
        return self.call_unknown(fn, args, kwargs, st)

    def ghost_get(self, st, name, kind):
        arr = self.heap_array(st, '$ghost:' + name, kind)
        return V(kind, z3.Select(arr, 0))

    def ghost_set(self, st, name, val: V):
        arr = self.heap_array(st, '$ghost:' + name, val.kind)
        st.heap['$ghost:' + name] = z3.Store(arr, 0, val.term)

    def ghost_const(self, name, sort):
        key = ('gconst', name)
        if key not in self.uf_cache:
            self.uf_cache[key] = z3.Const('ghost:' + name, sort)
        return self.uf_cache[key]

    def ghost_int(self, st, name):
        arr = self.heap_array(st, '$ghost:' + name, KInt)
        return z3.Select(arr, 0)

    def set_ghost_int(self, st, name, val):
        arr = self.heap_array(st, '$ghost:' + name, KInt)
        st.heap['$ghost:' + name] = z3.Store(arr, 0, val)

    def call_unknown(self, fn: V, args, kwargs, st):
        kwargs = dict(kwargs)
        if '**' in kwargs:
            args = list(args) + [kwargs.pop('**')]
        if kwargs:
            raise Unsupported('unknown callable with keyword arguments')
        args = [V(a.kind, a.term) if isinstance(a.meta, tuple) and a.meta[:1] == ('star',) else a for a in args]
        if fn.kind == KDyn:
            self.require(st, DynS.is_fn(fn.term), 'TypeError', 'object is not callable')
            fid = DynS.fid(fn.term)
        elif fn.kind == KFn:
            fid = fn.term
        else:
            self.require(st, z3.BoolVal(False), 'TypeError', 'object is not callable')
            return self.fresh(KDyn)
        dargs = [to_dyn(a).term for a in args]
        name = f'apply{len(dargs)}'
        if name not in self.uf_cache:
            self.uf_cache[name] = z3.Function(name, z3.IntSort(), *([DynS] * len(dargs)), DynS)
        res = DynV(self.uf_cache[name](fid, *dargs))
        if self.spec_mode:
            return res
        self.set_ghost_int(st, 'calls', self.ghost_int(st, 'calls') + 1)
        if self.contract.unknown_may_raise:
            rname = f'raises{len(dargs)}'
            if rname not in self.uf_cache:
                self.uf_cache[rname] = z3.Function(rname, z3.IntSort(), *([DynS] * len(dargs)), z3.BoolSort())
            self.assumptions.add('unknown callables are deterministic: whether they raise and what they return is a function of their arguments')
            self.require(st, z3.Not(self.uf_cache[rname](fid, *dargs)), 'Exception', 'the called function raises')
        else:
            self.assumptions.add('unknown callables are total, pure and deterministic (uninterpreted function symbols)')
        return res

    def bind_params(self, node, args, kwargs, st, module, defaults_env=None):
        a = node.args
        env = {}
        pos = list(a.posonlyargs) + list(a.args)
        args = list(args)
        if len(args) > len(pos) and not a.vararg:
            raise Unsupported('too many positional arguments')
        for p, v in zip(pos, args):
            env[p.arg] = v
        rest = args[len(pos):]
        if a.vararg:
            env[a.vararg.arg] = TupV(rest)
        kw = dict(kwargs)
        ndef = len(a.defaults)
        for i, p in enumerate(pos):
            if p.arg in env:
                continue
            if p.arg in kw:
                env[p.arg] = kw.pop(p.arg)
            else:
                di = i - (len(pos) - ndef)
                if di < 0:
                    raise Unsupported(f'missing argument {p.arg}')
                env[p.arg] = self.eval_default(a.defaults[di], module, st)
        for p, d in zip(a.kwonlyargs, a.kw_defaults):
            if p.arg in kw:
                env[p.arg] = kw.pop(p.arg)
            elif d is not None:
                env[p.arg] = self.eval_default(d, module, st)
            else:
                raise Unsupported(f'missing keyword argument {p.arg}')
        if a.kwarg:
            env[a.kwarg.arg] = V(KDict(KStr, KDyn), None, meta={'static_items': kw})
        elif kw:
            raise Unsupported(f'unexpected keyword arguments {list(kw)}')
        return env

    def eval_default(self, node, module, st):
        self.frames.append(Frame(fi=None, module=module, self_cls=None))
        try:
            return self.eval(node, st)
        finally:
            self.frames.pop()

    def inline(self, node, cenv, module, fi, args, kwargs, st, qual='', self_v=None, self_cls=None):
        if len(self.frames) > self.MAX_INLINE:
            raise Unsupported('inlining depth exceeded')
        env = dict(cenv) if cenv else {}
        bound = self.bind_params(node, args, kwargs, st, module)
        env.update(bound)
        saved_env = st.env
        st.env = env
        frame = Frame(fi=fi, module=module, self_cls=self_cls or (fi.cls if fi else None),
                      contract=REGISTRY.get(fi.key) if fi else None, depth=len(self.frames))
        if isinstance(node, ast.Lambda):
            self.frames.append(frame)
            try:
                v = self.eval(node.body, st)
            finally:
                self.frames.pop()
            st.env = saved_env
            return v
        self.frames.append(frame)
        try:
            rs, rv = self.exec_function_body(body_without_docstring(node), st, frame)
        finally:
            self.frames.pop()
        rs.env = saved_env
        st.assign_from(rs)
        return rv

    def call_repo(self, fi: FuncInfo, args, kwargs, st, closure=None) -> V:
        c = REGISTRY.get(fi.key)
        if fi.key == self.key and not self.frames_depth_ok():
            raise Unsupported('recursion')
        if c is not None and c.mode == 'contract' and (fi.key != self.key or len(self.frames) > 1):
            return self.apply_contract(fi, c, args, kwargs, st)
        self.inlined.add(fi.key)
        self_cls = None
        if not fi.is_static and fi.cls and args and isinstance(args[0].kind, KRef):
            self_cls = args[0].kind.cls or fi.cls
            if not self.is_subclass(self_cls, fi.cls):
                self_cls = fi.cls
        cenv = closure.env if closure is not None else {}
        return self.inline(fi.node, cenv, fi.module, fi, args, kwargs, st, qual=fi.qualname,
                           self_cls=self_cls)

    def frames_depth_ok(self):
        return len(self.frames) <= 1

    def apply_contract(self, fi, c: Contract, args, kwargs, st) -> V:
        """Use the callee's contract at a call site: check pre, havoc frame, assume post."""
        self.used_contracts.add(fi.key)
        bound = self.bind_params(fi.node, args, kwargs, st, fi.module)
        # coerce to declared kinds
        for name, kind in c.params.items():
            if name in bound:
                bound[name] = coerce(bound[name], kind)
        site = self.site('call:' + fi.qualname)
        # obligations the CALLER's contract attaches to calls of this callee (e.g. "the damping passed is the current one")
        for cl in self.contract.call_demands.get(fi.qualname, []) if not self.spec_mode else []:
            r = self.eval_spec(cl.node, st, self.init_state, extra_env={k_: v_ for k_, v_ in bound.items() if k_ != 'self'})
            self.oblige(st, self.truth(r), f'demand:{site}:{cl.label}', kind='pre', text=f'{fi.qualname} must be called with: {cl.text}',
                        props=cl.props)
        saved = (self._callee_env, getattr(self, 'let_nodes', {}))
        self._callee_env = bound
        self.let_nodes = {k: ast.parse(t, mode='eval').body for k, t in c.lets.items()}
        self.frames.append(Frame(fi=fi, module=fi.module, self_cls=fi.cls, contract=c))
        try:
            pre = st.copy()
            for cl in c.requires:
                r = self.eval_spec(cl.node, st, pre)
                if self.spec_mode:
                    continue
                self.oblige(st, self.truth(r), f'pre:{site}:{cl.label}', kind='pre',
                            text=f'precondition of {fi.qualname}: {cl.text}')
                st.add(self.truth(r))
            for exc, cl in c.raises:
                cond = self.truth(self.eval_spec(cl.node, st, pre))
                self.require(st, z3.Not(cond), exc, f'{fi.qualname} raises {exc} when {cl.text}')
            if st.dead:
                return NONE
            # havoc
            self.havoc_modifies(c, st, pre)
            res = fresh(c.result, 'res') if c.result is not None else NONE
            self.assume_wellformed(st, res)
            self.apply_ghost_sets(c, st, pre, res)
            for cl in c.ensures:
                if cl.bounded:
                    continue      # unproved clauses are never assumed at call sites
                r = self.eval_spec(cl.node, st, pre, result=res)
                self.fact(st, self.truth(r))
            # heap closedness for what the callee allocated: futures created by the callee stand for
            # tensors that exist when it returns (prophecy cells of Future.will_be in [pre.nxt, post.nxt))
            if 'Future.will_be' in st.heap and not z3.eq(pre.nxt, st.nxt):
                wb = st.heap['Future.will_be']
                rr = z3.Int(fresh_name('cr'))
                self.fact(st, Vm.forall([rr], z3.Implies(z3.And(rr >= pre.nxt, rr < st.nxt), z3.Select(wb, rr) < st.nxt),
                                        patterns=[z3.Select(wb, rr)], tag='callee_closed_'))
            return res
        finally:
            self.frames.pop()
            self._callee_env, self.let_nodes = saved

    def apply_ghost_sets(self, c: Contract, st: State, pre: State, res):
        """Ghost updates of a contract (specification-only fields): obj evaluated in the pre-state, value in
        the post-state; performed at the normal exit of the function / at the call site after the havoc."""
        for target, text in c.ghost_sets:
            node = ast.parse(target, mode='eval').body
            obj = self.eval_spec(node.value, pre, pre)
            val = self.eval_spec(ast.parse(text, mode='eval').body, st, pre, result=res)
            key, kind = self.field_decl(obj.kind.cls if isinstance(obj.kind, KRef) else None, node.attr)
            arr = self.heap_array(st, key, kind)
            st.heap[key] = z3.Store(arr, obj.term, coerce(val, kind).term)

    GHOST_KINDS = {'next_sid': KInt, 'calls': KInt, 'clock': KInt, 'barriers': KInt}

    def ghost_kind(self, name):
        if name == 'trace':
            return self.D.KTrace
        return self.GHOST_KINDS[name]

    def havoc_modifies(self, c: Contract, st: State, pre: State):
        if c.modifies == ['*']:
            for key in list(st.heap):
                oldarr = st.heap[key]
                st.heap[key] = z3.Const(fresh_name('H:' + key), st.heap[key].sort())
                if key == '$cls':
                    r = z3.Int(fresh_name('r'))
                    self.fact(st, Vm.forall([r], z3.Implies(z3.And(r > 0, r < pre.nxt),
                                                            z3.Select(st.heap[key], r) == z3.Select(oldarr, r)),
                                            patterns=[z3.Select(st.heap[key], r)]))
            return
        for m in c.modifies:
            if m.startswith('*.'):
                fname = m[2:]
                for (cl, f), k in FIELDS.items():
                    if f == fname:
                        key = f'{cl}.{f}'
                        self.heap_array(st, key, k)
                        st.heap[key] = z3.Const(fresh_name('H:' + key), st.heap[key].sort())
                continue
            if m == 'fresh':
                continue
            if m.startswith('ghost:'):
                kind = self.ghost_kind(m[6:])
                key = '$ghost:' + m[6:]
                self.heap_array(st, key, kind)
                st.heap[key] = z3.Const(fresh_name('H:' + key), st.heap[key].sort())
                continue
            if m.startswith('global:'):
                raise Unsupported('callee modifies a module global')
            m, cond = split_modifies(m)
            node = ast.parse(m, mode='eval').body
            obj = self.eval_spec(node.value, pre, pre)
            key, kind = self.field_decl(obj.kind.cls if isinstance(obj.kind, KRef) else None, node.attr)
            arr = self.heap_array(st, key, kind)
            nv = fresh(kind, 'hv')
            if cond:
                ct = self.truth(self.eval_spec(ast.parse(cond, mode='eval').body, pre, pre))
                st.heap[key] = z3.Store(arr, obj.term, z3.If(ct, nv.term, z3.Select(arr, obj.term)))
            else:
                st.heap[key] = z3.Store(arr, obj.term, nv.term)
        nx = z3.Int(fresh_name('alloc'))
        self.fact(st, nx >= st.nxt)
        st.nxt = nx
        # arrays replaced wholesale ('*.field'): the callee leaves the heap closed
        for m in c.modifies:
            if m.startswith('*.'):
                for (cl, f), k in FIELDS.items():
                    if f == m[2:] and f'{cl}.{f}' in st.heap:
                        self.heap_closed(st, f'{cl}.{f}', st.heap[f'{cl}.{f}'], k, st.nxt)

    def construct(self, cname, args, kwargs, st) -> V:
        b = self.B.construct(self, st, cname, args, kwargs)
        if b is not None:
            return b
        if cname not in self.repo.classes:
            raise Unsupported(f'construction of unknown class {cname}')
        ci = self.repo.classes[cname]
        obj = self.alloc(st, cname)
        if ci.dataclass_fields is not None:
            names = ci.dataclass_fields
            vals = dict(zip(names, args))
            vals.update(kwargs)
            for f in names:
                self.write_field(st, obj, f, vals[f])
            return obj
        init = self.repo.find_method(cname, '__init__')
        if init is not None:
            self.call_repo(init, [obj] + list(args), kwargs, st)
        return obj
