"""Trusted contracts of torch.distributed (DESIGN 4.7): membership pre-conditions, ghost trace, values.

Ghost state (per rank):  rank, world (ints), initialized (bool), trace (list of events).
An event is the tuple (kind, group, root, numel, dtype) with kind 1=all_reduce 2=broadcast 3=barrier
4=all_gather 5=reduce_scatter 6=all_gather_object 7=new_group.
"""
from __future__ import annotations

import z3

from . import values as Vm
from .values import (V, KInt, KReal, KBool, KStr, KDyn, KNone, KFn, KRef, KList, KTuple, KSetInt, IntV, RealV,
                     BoolV, NONE, Unsupported, ListOps, fresh_name, coerce, tuple_items, TupV)
from .contracts import klass
from .builtins import builtin, method, METHODS, TABLE
from . import tensors as T

KEvent = KTuple(KInt, KRef('ProcessGroup'), KInt, KInt, KInt)
KTrace = KList(KEvent)
klass('ProcessGroup', {'members': KSetInt, 'gsize': KInt}, lib=True)
I = z3.IntSort()


def rank(eng, st):
    return eng.ghost_const('rank', I)


def world(eng, st):
    return eng.ghost_const('world', I)


def initialized(eng, st):
    return eng.ghost_const('initialized', z3.BoolSort())


def base_facts(eng):
    if 'dist_facts' in eng.uf_cache:
        return
    eng.uf_cache['dist_facts'] = True
    r, w, ini = rank(eng, None), world(eng, None), initialized(eng, None)
    eng.facts.append(z3.And(w >= 1, r >= 0, r < w))
    eng.facts.append(z3.Implies(z3.Not(ini), z3.And(w == 1, r == 0)))
    eng.assumptions.add('torch.distributed: 0 <= rank < world_size; not initialized => single process')


def members(eng, st, group: V):
    """Set of ranks of a group handle (None = the world)."""
    base_facts(eng)
    w = world(eng, st)
    rs = eng.rangeset()
    if group.kind == KNone:
        return rs(0, w, 1)
    m = eng.read_field(st, V(KRef('ProcessGroup'), z3.If(group.term == 0, z3.IntVal(-1), group.term)), 'members',
                       cls='ProcessGroup') if False else None
    arr = eng.heap_array(st, 'ProcessGroup.members', KSetInt)
    _group_facts(eng, st, group)
    return z3.If(group.term == 0, rs(0, w, 1), z3.Select(arr, group.term))


def gsize(eng, st, group: V):
    base_facts(eng)
    w = world(eng, st)
    if group.kind == KNone:
        return w
    arr = eng.heap_array(st, 'ProcessGroup.gsize', KInt)
    _group_facts(eng, st, group)
    return z3.If(group.term == 0, w, z3.Select(arr, group.term))


def _group_facts(eng, st, group: V):
    """Type invariant of process-group handles: a handle other than None exists only while
    torch.distributed is initialised, and names at least one rank."""
    key = ('group_facts', group.term.get_id())
    if key in eng.uf_cache or eng.binders:
        return
    eng.uf_cache[key] = True
    arr = eng.heap_array(st, 'ProcessGroup.gsize', KInt)
    eng.fact(st, z3.Implies(group.term != 0, z3.And(initialized(eng, st), z3.Select(arr, group.term) >= 1)))
    eng.assumptions.add('torch.distributed: a ProcessGroup handle other than None exists only while the process group '
                        'is initialised and has at least one member')


def is_member(eng, st, group: V):
    return z3.Select(members(eng, st, group), rank(eng, st))


def append_event(eng, st, kind, group: V, root, numel, dtype):
    tr = eng.ghost_get(st, 'trace', KTrace)
    g = coerce(group, KRef('ProcessGroup'))
    ev = TupV([IntV(kind), g, V(KInt, root), V(KInt, numel), V(KInt, dtype)])
    eng.ghost_set(st, 'trace', V(KTrace, ListOps(KTrace).append(tr.term, ev.term)))


def _group_arg(args, kwargs, pos):
    g = kwargs.get('group')
    if g is None and len(args) > pos:
        g = args[pos]
    return g if g is not None else NONE


@builtin('torch.distributed.is_initialized')
def _is_init(eng, st, args, kwargs):
    base_facts(eng)
    return BoolV(initialized(eng, st))


@builtin('torch.distributed.get_rank')
def _get_rank(eng, st, args, kwargs):
    base_facts(eng)
    g = _group_arg(args, kwargs, 0)
    if g.kind == KNone:
        return IntV(rank(eng, st))
    f = eng.uf_cache.setdefault('grank', z3.Function('grank', I, I, I))
    return IntV(z3.If(g.term == 0, rank(eng, st), f(g.term, rank(eng, st))))


@builtin('torch.distributed.get_world_size')
def _get_world_size(eng, st, args, kwargs):
    base_facts(eng)
    g = _group_arg(args, kwargs, 0)
    s = gsize(eng, st, g)
    # a non-member gets -1 (the behaviour finding F3 runs into)
    return IntV(z3.If(is_member(eng, st, g), s, z3.IntVal(-1)))


def _collective_pre(eng, st, g, what):
    eng.require(st, is_member(eng, st, g), 'ValueError', f'{what}: this rank is not a member of the group')


@builtin('torch.distributed.all_reduce')
def _all_reduce(eng, st, args, kwargs):
    t = args[0]
    g = _group_arg(args, kwargs, 2)
    _collective_pre(eng, st, g, 'all_reduce')
    n = T.numel(eng, T.tf(eng, st, t, 'shape').term)
    append_event(eng, st, 1, g, z3.IntVal(-1), n, T.tf(eng, st, t, 'dtype').term)
    # the sum depends on WHO takes part (the member set), not on the handle naming the group
    val = T.mf('allsum', T.M, Vm.SetIntS, T.M)(T.tv(eng, st, t), members(eng, st, g))
    eng.write_field(st, t, 'val', V(T.KMat, val), cls='Tensor')
    eng.assumptions.add('M1: all_reduce yields the sum of the contributions of the members of the group (m_allsum)')
    return _work(eng, st, t)


@builtin('torch.distributed.broadcast')
def _broadcast(eng, st, args, kwargs):
    t = args[0]
    src = kwargs.get('src') if 'src' in kwargs else args[1]
    g = _group_arg(args, kwargs, 2)
    _collective_pre(eng, st, g, 'broadcast')
    s = eng.as_int(src, st)
    eng.require(st, z3.Select(members(eng, st, g), s), 'ValueError', 'broadcast: the root is not a member of the group')
    n = T.numel(eng, T.tf(eng, st, t, 'shape').term)
    append_event(eng, st, 2, g, s, n, T.tf(eng, st, t, 'dtype').term)
    gt = coerce(g, KRef('ProcessGroup')).term
    tr = eng.ghost_get(st, 'trace', KTrace)
    recv = T.mf('bcast', I, I, I, T.M)(gt, s, ListOps(KTrace).len(tr.term))
    val = z3.If(rank(eng, st) == s, T.tv(eng, st, t), recv)
    eng.write_field(st, t, 'val', V(T.KMat, val), cls='Tensor')
    eng.assumptions.add('M1: broadcast yields the root\'s tensor on every member (m_bcast on receivers)')
    return _work(eng, st, t)


def _work(eng, st, t):
    f = eng.alloc(st, 'WorkFuture')
    eng.write_field(st, f, 'will_be', t, cls='Future')
    eng.write_field(st, f, 'resolved', BoolV(False), cls='Future')
    w = eng.alloc(st, 'Work')
    eng.write_field(st, w, 'fut', f, cls='Work')
    return w


@builtin('torch.distributed.barrier')
def _barrier(eng, st, args, kwargs):
    g = _group_arg(args, kwargs, 0)
    append_event(eng, st, 3, g, z3.IntVal(-1), z3.IntVal(0), z3.IntVal(0))
    eng.set_ghost_int(st, 'barriers', eng.ghost_int(st, 'barriers') + 1)
    return NONE


@builtin('torch.distributed.new_group')
def _new_group(eng, st, args, kwargs):
    ranks = args[0] if args else kwargs.get('ranks')
    g = eng.alloc(st, 'ProcessGroup')
    if ranks is not None and ranks.kind != KNone:
        from .builtins import _set
        S = _set(eng, st, [ranks], {})
        eng.write_field(st, g, 'members', S, cls='ProcessGroup')
    else:
        eng.write_field(st, g, 'members', V(KSetInt, eng.rangeset()(0, world(eng, st), 1)), cls='ProcessGroup')
    append_event(eng, st, 7, g, z3.IntVal(-1), z3.IntVal(0), z3.IntVal(0))
    return g


@builtin('torch.distributed.get_process_group_ranks')
def _get_pg_ranks(eng, st, args, kwargs):
    """Global ranks of the members of a group (returned as the set; the repository only builds a frozenset of it)."""
    g = _group_arg(args, kwargs, 0)
    eng.assumptions.add('torch.distributed.get_process_group_ranks(g) lists exactly the members of g')
    return V(KSetInt, members(eng, st, g))
