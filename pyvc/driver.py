"""Per-property driver: generate obligations from the current /repo tree, discharge, report.

Exit codes: 0 held / 1 VIOLATION / 2 UNDECIDED / 3 checker error.
"""
from __future__ import annotations

import argparse
import glob
import importlib
import json
import multiprocessing as mp
import os
import sys
import time
import traceback

VERIF = os.path.dirname(os.path.dirname(os.path.abspath(__file__)))
sys.path.insert(0, VERIF)


def load_contracts():
    import pyvc.specfuncs  # noqa
    for f in sorted(glob.glob(os.path.join(VERIF, 'contracts', '*.py'))):
        name = os.path.basename(f)[:-3]
        if name.startswith('_'):
            continue
        importlib.import_module(f'contracts.{name}')


def verify_function(key, want_props=None, cross=False):
    """Run in a worker process.  Returns a picklable dict."""
    import z3
    from pyvc import builtins as B, solver
    from pyvc.contracts import REGISTRY, LEMMAS
    from pyvc.extract import Repo
    from pyvc.symex import Engine
    from pyvc.values import Unsupported, SpecError
    t0 = time.time()
    out = {'key': key, 'obligations': [], 'covers': [], 'status': 'ok', 'error': '',
           'assumptions': [], 'trusted': [], 'inlined': [], 'used_contracts': []}
    try:
        repo = Repo()
        if key.split('#')[0] not in repo.funcs:
            out['status'] = 'missing'
            out['error'] = f'function {key} not found in the working tree'
            return out
        fi = repo.funcs[key.split('#')[0]]
        out['file'], out['lines'], out['sha256'] = fi.file, list(fi.lines), fi.sha256
        c = REGISTRY[key]
        out['bounded_clauses'] = [cl.label for cl in c.ensures if cl.bounded]
        if c.mode == 'bounded':
            out['status'] = 'bounded-only'
            out['bounded_clauses'] = [cl.label for cl in c.ensures] + [f'raises:{e}' for e, _ in c.raises]
            out['wall_s'] = round(time.time() - t0, 3)
            return out
        engines = []
        restore = apply_class_map(c.class_map)
        eng = Engine(repo, key, B)
        try:
            eng.run()
        finally:
            restore()
        engines.append(eng)
        for lem in LEMMAS:
            if lem.key == key:
                e2 = Engine(repo, key, B)
                e2.run_lemma(lem)
                engines.append(e2)
        exhausted = False
        for e in engines:
            out['assumptions'] += sorted(e.assumptions)
            out['trusted'] += sorted(e.trusted_used)
            out['inlined'] += sorted(e.inlined)
            out['used_contracts'] += sorted(e.used_contracts)
            for ob in e.obligations:
                if want_props and not (set(ob.props) & set(want_props)):
                    continue
                solver.discharge(ob, cross_check=cross, short=exhausted)
                exhausted = exhausted or getattr(ob, 'exhausted', False)
                d = {'name': ob.name, 'kind': ob.kind, 'props': list(ob.props), 'text': ob.text,
                     'status': ob.status, 'backend': ob.backend, 'time_s': round(ob.time_s, 4),
                     'reason': ob.reason, 'float_mode': e.contract.float_mode}
                if ob.model is not None:
                    d['model'] = model_to_dict(ob.model)
                out['obligations'].append(d)
            for name, fs, goal in e.covers:
                r = solver.cover(fs, goal)
                out['covers'].append({'name': f'{key}/{name}', 'result': r})
    except Unsupported as ex:
        out['status'] = 'unsupported'
        out['error'] = str(ex)
    except SpecError as ex:
        out['status'] = 'spec-error'
        out['error'] = str(ex) + '\n' + traceback.format_exc()
    except Exception as ex:      # engine defect
        out['status'] = 'engine-error'
        out['error'] = f'{type(ex).__name__}: {ex}\n' + traceback.format_exc()
    out['wall_s'] = round(time.time() - t0, 3)
    return out


def apply_class_map(cmap):
    """Instantiate the static class of reference-typed fields (e.g. every KFACBaseLayer is a
    KFACEigenLayer) for one verification run; returns the undo function."""
    from pyvc.contracts import FIELDS
    from pyvc.values import KRef, KTuple, KDict, KList
    if not cmap:
        return lambda: None

    def subst(k):
        if isinstance(k, KRef) and k.cls in cmap:
            return KRef(cmap[k.cls])
        if isinstance(k, KTuple):
            return KTuple(*[subst(i) for i in k.items])
        if isinstance(k, KDict):
            return KDict(subst(k.key), subst(k.val), default=k.default)
        if isinstance(k, KList):
            return KList(subst(k.elem))
        return k
    saved = dict(FIELDS)
    for key, kind in list(FIELDS.items()):
        FIELDS[key] = subst(kind)

    def restore():
        FIELDS.clear()
        FIELDS.update(saved)
    return restore


def model_to_dict(m):
    d = {}
    for decl in m.decls():
        n = decl.name()
        if '!' in n and not n.split('!')[0] in ('alloc',):
            base = n.split('!')[0]
        try:
            d[n] = str(m[decl])[:300]
        except Exception:
            pass
    return d


def _worker(args):
    return verify_function(*args)


def functions_for(pid):
    from pyvc.contracts import REGISTRY, LEMMAS
    keys = []
    for key, c in REGISTRY.items():
        if c.trusted or c.mode == 'inline':
            continue       # (inline: only loop contracts / kinds for a function that is always verified inside its callers)
        clause_props = set(c.props)
        for cl in c.requires + c.ensures + [x for _, x in c.raises]:
            clause_props |= set(cl.props)
        if pid in clause_props:
            keys.append(key)
    return keys


def run_property(pid, tier='quick', jobs=None, verbose=True):
    from pyvc import report
    t0 = time.time()
    load_contracts()
    keys = functions_for(pid)
    if not keys:
        print(f'[{pid}] no functions under contract for this property')
        return 3
    jobs = jobs or min(len(keys), int(os.environ.get('PYVC_JOBS', '16')))
    cross = tier == 'thorough'
    work = [(k, [pid], cross) for k in keys]
    if jobs > 1:
        # one fresh process per function: module-level state of the generator (list / dict axiom tables, name counters)
        # must not depend on which functions a worker happened to verify before -- verdicts have to be reproducible
        with mp.get_context('fork').Pool(jobs, maxtasksperchild=1) as pool:
            results = pool.map(_worker, work, chunksize=1)
    else:
        results = [_worker(w) for w in work]
    return report.finish(pid, tier, results, time.time() - t0, verbose=verbose)


def main(argv=None):
    ap = argparse.ArgumentParser()
    ap.add_argument('pid')
    ap.add_argument('--tier', default=os.environ.get('VERIF_TIER', 'quick'))
    ap.add_argument('--replay')
    ap.add_argument('--jobs', type=int)
    ap.add_argument('--func')
    ap.add_argument('--relock', nargs='*')
    a = ap.parse_args(argv)
    try:
        if a.relock is not None:
            from pyvc import report
            report.relock([a.pid] + list(a.relock), lambda pid, tier, jobs, verbose=True: run_property(pid, tier, jobs, verbose))
            return 0
        if a.func:
            load_contracts()
            r = verify_function(a.func, [a.pid] if a.pid != '-' else None)
            print(json.dumps(r))
            return 0
        if a.replay:
            from pyvc import report
            return report.replay_file(a.pid, a.replay)
        return run_property(a.pid, a.tier, a.jobs)
    except SystemExit:
        raise
    except Exception:
        traceback.print_exc()
        return 3


if __name__ == '__main__':
    sys.exit(main())
