"""Verdicts, evidence files, VIOLATION / KNOWN-FINDING / UNDECIDED lines."""
from __future__ import annotations

import json
import os
import re
import subprocess
import sys
import time

VERIF = os.path.dirname(os.path.dirname(os.path.abspath(__file__)))
EVIDENCE_DIR = os.environ.get('PYVC_EVIDENCE_DIR') or os.path.join(VERIF, 'evidence')
LOCK = os.path.join(VERIF, 'obligations.lock.json')
_ORD = re.compile(r'#\d+')


def _base(name):
    return _ORD.sub('#', name)

KNOWN = os.path.join(VERIF, 'known_findings.json')
VENV_PY = '/venv/bin/python'

GLOBAL_ASSUMPTIONS = [
    'S1: int is unbounded; // and % are floor division/modulo; bool is a subtype of int',
    'S2: dict iterates in insertion order',
    'S4: sorted is stable; min/max return the first extremal element; list.index the first position; sum is a left fold from 0',
    'S5: int() truncates toward zero; round() rounds half to even',
    'S6: ordering comparison with None raises TypeError',
    'S7: objects have no attribute magic beyond the properties defined in their classes; distinct allocations have distinct identities',
    'S8: single thread of control per rank; future call-backs run atomically at completion',
    'S9: mutable containers (list/dict/set) are modelled with value semantics; no aliasing between container values reached through different paths',
    'S10: no NameError/UnboundLocalError (names are bound on every path that reads them)',
    'float arithmetic treated as real arithmetic (mode R) or as uninterpreted operations (mode U) as recorded per obligation',
    'type annotations of the repository are used as sort hints for parameters and fields',
]


_FALS_CACHE = {}


def load_json(path, default):
    if os.path.exists(path):
        with open(path) as f:
            return json.load(f)
    return default


def run_falsifier(pid, ob, fn_result, seed, budget=None):
    """Ask the concrete falsifier (real code, /venv python) for a failing input for this obligation."""
    script = os.path.join(VERIF, 'harness', 'falsify.py')
    if not os.path.exists(script):
        return None
    from pyvc.contracts import export_contract
    req = {'property': pid, 'obligation': ob['name'], 'function': fn_result['key'],
           'model': ob.get('model'), 'text': ob.get('text'), 'seed': seed,
           'contract': export_contract(fn_result['key'])}
    if budget:
        req['budget'] = budget
    tmo = int(os.environ.get('PYVC_FALSIFIER_TIMEOUT', '240'))
    req['time_budget_s'] = int(tmo * 0.6)
    ck = (fn_result['key'], budget)
    if ck in _FALS_CACHE:
        return _FALS_CACHE[ck]

    try:
        p = subprocess.run([VENV_PY, script], input=json.dumps(req), capture_output=True, text=True,
                           timeout=tmo, cwd=VERIF, env={**os.environ, 'PYTHONPATH': os.environ.get('PYVC_REPO', '/repo')})
        line = [ln for ln in p.stdout.splitlines() if ln.startswith('{')]
        if not line:
            return {'reproduced': None, 'detail': (p.stderr or p.stdout)[-2000:]}
        _FALS_CACHE[ck] = json.loads(line[-1])
        return _FALS_CACHE[ck]
    except subprocess.TimeoutExpired:
        return {'reproduced': None, 'error': 'falsifier timeout'}


def finish(pid, tier, results, wall, verbose=True):
    seed = int(os.environ.get('VERIF_SEED', '0'))
    lock = load_json(LOCK, {})
    known = [k for k in load_json(KNOWN, {'findings': []})['findings'] if k['property'] == pid]
    locked = set(lock.get(pid, []))
    locked_bases = {_base(x) for x in locked}
    locked_funcs = {x.split('/')[0] for x in locked}
    obligations, discharged = [], 0
    undecided, violations, errors, known_hits = [], [], [], []
    funcs = []
    trusted, assumptions, inlined = set(), set(GLOBAL_ASSUMPTIONS), set()
    by_backend, solver_s = {}, 0.0
    covers_bad = []
    generated = set()
    bounded_recs = []
    for r in results:
        funcs.append({'name': r['key'], 'file': r.get('file'), 'lines': r.get('lines'),
                      'sha256': r.get('sha256'), 'status': r['status'], 'wall_s': r.get('wall_s')})
        if r['status'] == 'engine-error':
            errors.append((r['key'], r['error']))
            continue
        if r.get('bounded_clauses'):
            # bounded stand-in: run-time contract check of the real function on generated inputs
            ob = {'name': r['key'] + '/bounded', 'text': 'bounded run-time contract check', 'backend': 'falsifier',
                  'status': 'bounded', 'reason': ''}
            fr = run_falsifier(pid, ob, r, seed, budget=int(os.environ.get('PYVC_BOUNDED_BUDGET', '300' if tier == 'quick' else '3000')))
            rec = {'function': r['key'], 'clauses': r['bounded_clauses'], 'cases': (fr or {}).get('admissible', 0),
                   'generated': (fr or {}).get('tried', 0),
                   'distinct_cases': (fr or {}).get('distinct', 0), 'samples': (fr or {}).get('samples', []),
                   'bound': (fr or {}).get('bound', 'seeded generator, see harness/gens.py'), 'result': 'held'}
            if fr and fr.get('reproduced'):
                rec['result'] = 'violated'
                os.makedirs(os.path.join(VERIF, 'replays', pid), exist_ok=True)
                rpath = os.path.join('replays', pid, r['key'].replace('/', '.').replace(':', '_') + '.bounded.json')
                with open(os.path.join(VERIF, rpath), 'w') as f:
                    json.dump({'property': pid, 'obligation': r['key'] + '/' + fr.get('clause', '?'),
                               'function': r['key'], 'source_sha256': r.get('sha256'),
                               'falsifier': fr, 'reproduced': True}, f, indent=1)
                kf = next((k for k in known if k.get('status') == 'known'
                           and k['obligation'] == r['key'] + '/' + fr.get('clause', '?')), None)
                if kf is not None:
                    known_hits.append((kf, ob))
                else:
                    violations.append(({'name': r['key'] + '/' + fr.get('clause', '?'), 'text': fr.get('detail', '')[:300]}, rpath, ''))
            elif not fr or fr.get('reproduced') is None:
                undecided.append((r['key'] + '/bounded', 'bounded check could not run: ' + str((fr or {}).get('detail'))[:300]))
            bounded_recs.append(rec)
            if r['status'] == 'bounded-only':
                continue
        if r['status'] != 'ok':
            # outside the verifier's reach: the bounded falsifier (real code, run-time contract)
            # may still refute; it can never confirm.
            msg = f"{r['status']}: {r['error'][:300]}"
            if r['status'] == 'unsupported':
                ob = {'name': r['key'] + '/*', 'text': 'whole contract (function outside the supported subset)',
                      'backend': 'falsifier', 'status': 'unsupported', 'reason': r['error'][:300]}
                fr = run_falsifier(pid, ob, r, seed)
                if fr and fr.get('reproduced'):
                    os.makedirs(os.path.join(VERIF, 'replays', pid), exist_ok=True)
                    rpath = os.path.join('replays', pid, r['key'].replace('/', '.').replace(':', '_') + '.json')
                    with open(os.path.join(VERIF, rpath), 'w') as f:
                        json.dump({'property': pid, 'obligation': r['key'] + '/' + fr.get('clause', '?'),
                                   'function': r['key'], 'source_sha256': r.get('sha256'),
                                   'solver': {'result': 'unsupported', 'reason': r['error'][:300]},
                                   'falsifier': fr, 'reproduced': True}, f, indent=1)
                    ob['name'] = r['key'] + '/' + fr.get('clause', '?')
                    ob['text'] = fr.get('detail', '')[:200]
                    violations.append((ob, rpath, ''))
                    continue
                msg += f" | falsifier: {(fr or {}).get('detail', '')[:200]}"
            undecided.append((r['key'], msg))
            continue
        trusted |= set(r['trusted'])
        assumptions |= set(r['assumptions'])
        inlined |= set(r['inlined'])
        for c in r['covers']:
            if c['result'] == 'unsat':
                covers_bad.append(c['name'])
        for ob in r['obligations']:
            obligations.append(ob)
            generated.add(ob['name'])
            solver_s += ob['time_s']
            if ob['status'] == 'discharged':
                discharged += 1
                by_backend[ob['backend']] = by_backend.get(ob['backend'], 0) + 1
                continue
            # not discharged: known finding?
            kf = next((k for k in known if k.get('status') == 'known' and k['obligation'] == ob['name']), None)
            fr = run_falsifier(pid, ob, r, seed)
            os.makedirs(os.path.join(VERIF, 'replays', pid), exist_ok=True)
            rpath = os.path.join('replays', pid, ob['name'].replace('/', '.').replace(':', '_') + '.json')
            rec = {'property': pid, 'obligation': ob['name'], 'function': r['key'],
                   'source_sha256': r.get('sha256'), 'expected': ob['text'],
                   'solver': {'backend': ob['backend'], 'result': ob['status'], 'reason': ob['reason'],
                              'model': ob.get('model')},
                   'falsifier': fr, 'reproduced': (fr or {}).get('reproduced')}
            with open(os.path.join(VERIF, rpath), 'w') as f:
                json.dump(rec, f, indent=1)
            if kf is not None and (fr or {}).get('reproduced'):
                known_hits.append((kf, ob))
                continue
            if fr and fr.get('reproduced'):
                violations.append((ob, rpath, ''))
            elif ob['status'] == 'failed' and fr and fr.get('reproduced') is False and fr.get('conclusive'):
                undecided.append((ob['name'], 'spurious-model: solver model does not reproduce on the real code'))
            elif (ob['name'] in locked or (_ORD.search(ob['name']) and _base(ob['name']) in locked_bases)
                  or (_ORD.search(ob['name']) and ob['name'].split('/')[0] in locked_funcs)):
                # (a safety / pre-condition obligation at a new statement of a function whose obligations were all
                # discharged on the unchanged tree is a regression of that function against its contract)
                # (obligations named by a call-site / statement ordinal are matched modulo the ordinal: an
                # edit elsewhere in the function renumbers them)
                violations.append((ob, rpath, ' no-failing-input-found'))
            else:
                undecided.append((ob['name'], f"{ob['status']} ({ob['reason']}); not in lock file"))
    # ---- thorough tier: run-time validation of every contract against the real function (all clauses the
    # run-time evaluator supports, generated inputs): a disagreement is either a defect or a wrong contract, and in
    # both cases must not go unnoticed
    validation = []
    if tier == 'thorough' and not errors:
        budget = int(os.environ.get('PYVC_VALIDATION_BUDGET', '150'))
        for r in results:
            if r['status'] not in ('ok', 'unsupported') or r.get('bounded_clauses'):
                continue
            ob = {'name': r['key'] + '/runtime-validation', 'text': 'run-time contract check of the real function', 'backend': 'falsifier'}
            fr = run_falsifier(pid, ob, r, seed, budget=budget)
            rec = {'function': r['key'], 'cases': (fr or {}).get('admissible', 0), 'generated': (fr or {}).get('tried', 0), 'result': 'held'}
            if fr and fr.get('reproduced'):
                rec['result'] = 'violated'
                os.makedirs(os.path.join(VERIF, 'replays', pid), exist_ok=True)
                rpath = os.path.join('replays', pid, r['key'].replace('/', '.').replace(':', '_') + '.validation.json')
                with open(os.path.join(VERIF, rpath), 'w') as f:
                    json.dump({'property': pid, 'obligation': r['key'] + '/' + fr.get('clause', '?'), 'function': r['key'],
                               'source_sha256': r.get('sha256'), 'falsifier': fr, 'reproduced': True}, f, indent=1)
                violations.append(({'name': r['key'] + '/' + fr.get('clause', '?'), 'text': fr.get('detail', '')[:300]}, rpath, ''))
            elif not fr or fr.get('reproduced') is None:
                rec['result'] = 'not-run: ' + str((fr or {}).get('detail', (fr or {}).get('error', '')))[:160]
            validation.append(rec)
    # ordinal-named obligations (noexc:E#k, pre:call:f#k:clause) come and go with harmless edits: only the
    # obligations named after a contract clause, a loop invariant, a frame or a lemma must still be generated
    missing = sorted(m for m in locked - generated if not _ORD.search(m)) if not errors else []
    for m in missing:
        undecided.append((m, 'locked obligation was not generated (function renamed/removed or clause anchor gone)'))
    # ---- output
    n = len(obligations)
    if verbose:
        print(f'[{pid}] {n} obligations from {len(funcs)} functions: {discharged} discharged '
              f'({", ".join(f"{k} {v}" for k, v in sorted(by_backend.items()))}), '
              f'{n - discharged} not discharged; solver {solver_s:.1f}s wall {wall:.1f}s')
        for k, e in errors:
            print(f'[{pid}] CHECKER-ERROR {k}: {e[:1500]}')
        for k, e in undecided[:12]:
            print(f'[{pid}] UNDECIDED {k}: {e}')
        if len(undecided) > 12:
            print(f'[{pid}] ... and {len(undecided) - 12} more undecided obligations (see evidence)')
        for c in covers_bad:
            print(f'[{pid}] VACUITY cover unsatisfiable: {c}')
    for kf, ob in known_hits:
        print(f"KNOWN-FINDING: property={pid} {kf['what']}")
    for ob, rpath, suffix in violations:
        print(f"[{pid}] FAILED {ob['name']}: {ob['text']}")
        print(f'VIOLATION property={pid} replay={rpath}{suffix}')
    # ---- evidence
    samples = [{'obligation': o['name'], 'goal': o['text'], 'backend': o['backend'], 'status': o['status']}
               for o in obligations[:: max(1, len(obligations) // 6)]][:8]
    ev = {
        'property_id': pid, 'tier': tier, 'seed': seed, 'level': 'proof',
        'wall_s': round(wall, 2), 'violations': len(violations),
        'coverage': {
            'obligations': n, 'discharged': discharged,
            'checker_cmd': f'./check {pid} --tier {tier}',
            'trusted_base': sorted(trusted),
            'functions_under_contract': funcs,
            'by_backend': by_backend, 'solver_s': round(solver_s, 2),
            'inlined_callees': sorted(inlined),
            'covers_unsat': covers_bad,
            'undecided': [list(u) for u in undecided],
            'known_findings_reproduced': [k['id'] for k, _ in known_hits],
            'bounded': bounded_recs,
            'runtime_validation': validation,
            'samples': samples or [{'note': 'no obligations generated'}],
            'obligation_list': [{'name': o['name'], 'status': o['status'], 'backend': o['backend'],
                                 'time_s': o['time_s'], 'float_mode': o.get('float_mode')} for o in obligations],
        },
        'assumptions': sorted(assumptions),
    }
    bounded_cases = sum(b['cases'] for b in bounded_recs)
    if bounded_recs:
        ev['coverage']['evaluations'] = bounded_cases
        ev['coverage']['distinct_nontrivial'] = sum(b['distinct_cases'] for b in bounded_recs)
        ev['coverage']['rule'] = ('bounded run-time contract check of the real function: inputs from the seeded generator in '
                                  'harness/gens.py that satisfy the requires clauses; distinct = different generated inputs')
    claimed_category = None
    try:
        claimed_category = json.load(open(os.path.join(VERIF, 'tools', 'claimed.json'))).get(pid, {}).get('category')
    except Exception:      # noqa
        pass
    if (n == 0 or claimed_category == 'exploration') and bounded_recs:
        # nothing is proved for this property: the evidence is that of a bounded exploration, and says so
        ev['level'] = 'exploration'
        ev['coverage']['samples'] = [s for b in bounded_recs for s in b['samples']][:6] or [{'note': 'no case generated'}]
        ev['coverage']['explanation'] = 'no deductive obligation: every clause of this property is decided by the bounded run-time contract check (stated bound above), never counted as proved'
    os.makedirs(EVIDENCE_DIR, exist_ok=True)
    with open(os.path.join(EVIDENCE_DIR, f'{pid}.json'), 'w') as f:
        json.dump(ev, f, indent=1)
    if errors or covers_bad or (n == 0 and bounded_cases == 0):
        return 3
    if violations:
        return 1
    if undecided:
        return 2
    return 0


def relock(pids, run_property):
    lock = load_json(LOCK, {})
    for pid in pids:
        # the old entry is dropped first: renamed / re-anchored obligations must not block a relock
        if pid in lock:
            stale = dict(lock)
            del stale[pid]
            with open(LOCK, 'w') as f:
                json.dump(stale, f, indent=1, sort_keys=True)
        rc = run_property(pid, 'quick', None, verbose=True)
        if rc != 0:
            print(f'refusing to lock {pid}: exit {rc} (previous entry kept)')
            with open(LOCK, 'w') as f:
                json.dump(lock, f, indent=1, sort_keys=True)
            continue
        ev = json.load(open(os.path.join(EVIDENCE_DIR, f'{pid}.json')))
        lock[pid] = sorted(o['name'] for o in ev['coverage']['obligation_list'])
    with open(LOCK, 'w') as f:
        json.dump(lock, f, indent=1, sort_keys=True)


def replay_file(pid, path):
    rec = json.load(open(path))
    print(json.dumps(rec, indent=1)[:4000])
    return 0
