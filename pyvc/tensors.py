"""Tier B1: tensors as heap objects with metadata + an abstract value (`Mat`, uninterpreted sort).

A tensor is a reference of library class `Tensor` with fields
    shape: List[Int]   dtype: Ref[dtype]   device: Ref[device]   sid: Int (storage identity)
    val: Mat           contig: Bool        grad: Ref[Tensor]     requires_grad: Bool
Every modelled torch operation builds its result value as an *uninterpreted function* of the operand
values (m_mul, m_add, m_smul, ...): code and specification are compared by congruence, and algebraic
facts (associativity, inverses, L1 ...) are used only in separately proved lemmas (theory.py).
Views (`t()`, `view`, `.data`, slicing, no-op `.to` / `.contiguous()`) share `sid`; every other result
has a fresh storage identity.  In-place operations (`fill_`, collective outputs) update `val` of the
receiving object.  Floating point is real arithmetic (mode R): dtype casts keep `val`.

Everything here is a *trusted contract* of torch / torch.distributed (DESIGN appendix G).
"""
from __future__ import annotations

import ast

import z3

from . import values as Vm
from .values import (V, KInt, KReal, KBool, KStr, KDyn, KNone, KFn, KRef, KList, KTuple, IntV, RealV,
                     BoolV, NONE, Unsupported, ListOps, fresh_name, coerce, tuple_items, TupV, merge)
from .contracts import klass
from .builtins import builtin, method, METHODS, TABLE, MODULE_NAMES, LIB_CLASS_ALIASES, Mutation

MatS = z3.DeclareSort('Mat')
KMat = Vm._Prim('Mat', MatS)
KShape = KList(KInt)
KDType = KRef('dtype')
KDevice = KRef('device')

DTYPES = {'float16': 1, 'bfloat16': 2, 'float32': 3, 'float64': 4, 'float': 3, 'half': 1, 'double': 4,
          'int64': 5, 'long': 5}
DTYPE_BYTES = {1: 2, 2: 2, 3: 4, 4: 8, 5: 8}

klass('Tensor', {'shape': KShape, 'dtype': KDType, 'device': KDevice, 'sid': KInt, 'val': KMat,
                 'contig': KBool, 'grad': KRef('Tensor'), 'requires_grad': KBool}, lib=True)
klass('Future', {'will_be': KRef('Tensor'), 'resolved': KBool}, lib=True)
klass('WorkFuture', {}, lib=True, bases=['Future'])
klass('Work', {'fut': KRef('WorkFuture')}, lib=True)
klass('dtype', {}, lib=True)
klass('device', {}, lib=True)
klass('GradScaler', {}, lib=True)
LIB_CLASS_ALIASES.update({'Tensor': 'Tensor', 'Future': 'Future', 'GradScaler': 'GradScaler', 'ProcessGroup': 'ProcessGroup'})
MODULE_NAMES.update({'torch.futures', 'torch._C', 'torch.cuda', 'torch.cuda.amp'})

R, I, M = z3.RealSort(), z3.IntSort(), MatS
LS = KShape.sort()
_F: dict = {}


def mf(name, *sorts):
    """Uninterpreted matrix-level function symbol m_<name>."""
    if name not in _F:
        _F[name] = z3.Function('m_' + name, *sorts)
    return _F[name]


def shape_list(eng, items):
    return eng.make_list([i if isinstance(i, V) else V(KInt, i) for i in items], KInt)


def fresh_sid(eng, st):
    s = eng.ghost_int(st, 'next_sid')
    eng.set_ghost_int(st, 'next_sid', s + 1)
    return s


def canon_shape(shape: V) -> V:
    """Shape lists of concrete rank are kept in canonical form (append-chain on the empty list) so that
    equal shapes are equal terms."""
    lo = ListOps(KShape)
    cs = lo._concrete(shape.term)
    if cs is not None:
        return V(KShape, lo.from_items(cs))
    return shape


def new_tensor(eng, st, val, shape: V, dtype, device, sid=None, contig=True, grad=None):
    t = eng.alloc(st, 'Tensor')
    w = lambda f, v: eng.write_field(st, t, f, v, cls='Tensor')    # noqa: E731
    w('val', V(KMat, val))
    w('shape', canon_shape(shape))
    w('dtype', dtype if isinstance(dtype, V) else V(KDType, dtype))
    w('device', device if isinstance(device, V) else V(KDevice, device))
    w('sid', V(KInt, sid if sid is not None else fresh_sid(eng, st)))
    w('contig', BoolV(contig) if isinstance(contig, bool) else V(KBool, contig))
    w('grad', grad if grad is not None else NONE)
    return t


def tf(eng, st, t, name):
    v = eng.read_field(st, t, name, cls='Tensor')
    if name in ('dtype', 'device'):
        eng.fact(st, z3.Implies(t.term != 0, v.term != 0))      # every tensor has a dtype and a device
    return v


def tv(eng, st, t):
    return tf(eng, st, t, 'val').term


def is_tensor(v):
    return isinstance(v.kind, KRef) and v.kind.cls == 'Tensor'


def dim(eng, st, t, i):
    sh = tf(eng, st, t, 'shape')
    lo = ListOps(KShape)
    n = lo.len(sh.term)
    ii = i if not isinstance(i, int) else z3.IntVal(i)
    if isinstance(i, int) and i < 0:
        ii = n + i
    return lo.at(sh.term, ii)


def like(eng, st, t, val, shape=None, dtype=None, view=False, contig=True):
    return new_tensor(eng, st, val, shape if shape is not None else tf(eng, st, t, 'shape'),
                      dtype if dtype is not None else tf(eng, st, t, 'dtype'), tf(eng, st, t, 'device'),
                      sid=tf(eng, st, t, 'sid').term if view else None, contig=contig)


def numel(eng, shape_term):
    cs = ListOps(KShape)._concrete(shape_term)
    if cs is not None and len(cs) == 1:
        return cs[0]          # a vector of k elements has k elements
    if 'numel_ax' not in eng.uf_cache:
        eng.uf_cache['numel_ax'] = True
        L = z3.Const('nmL', LS)
        lo = ListOps(KShape)
        eng.facts.append(z3.ForAll([L], z3.Implies(lo.len(L) == 1, mf('numel', LS, I)(L) == lo.at(L, 0)), patterns=[mf('numel', LS, I)(L)]))
    return mf('numel', LS, I)(shape_term)


def _set_dim(shape_term, i, v):
    lo = ListOps(KShape)
    return lo.mk(lo.len(shape_term), z3.Store(lo.arr(shape_term), i, v))


# --------------------------------------------------------------------------- dtype / device constants
def _dtype_const(name):
    def fn(eng, st, args, kwargs):
        raise Unsupported('dtype is not callable')
    return fn


for _n, _i in DTYPES.items():
    TABLE[f'torch.{_n}'] = V(KDType, z3.IntVal(_i))


def lookup_const(dotted):
    v = TABLE.get(dotted)
    return v if isinstance(v, V) else None


def esize(dtype_term):
    t = z3.IntVal(4)
    for i, b in DTYPE_BYTES.items():
        t = z3.If(dtype_term == i, z3.IntVal(b), t)
    return t


# --------------------------------------------------------------------------- attribute / method models
@method('Tensor', 'size')
def _size(eng, st, recv, args, kwargs):
    if not args:
        return tf(eng, st, recv, 'shape')
    i = eng.as_int(args[0], st)
    ci = eng.concrete_int(i)
    return V(KInt, dim(eng, st, recv, ci if ci is not None else i))


@method('Tensor', 'nelement', 'numel')
def _nelement(eng, st, recv, args, kwargs):
    n = numel(eng, tf(eng, st, recv, 'shape').term)
    eng.fact(st, n >= 0)
    return V(KInt, n)


@method('Tensor', 'element_size')
def _element_size(eng, st, recv, args, kwargs):
    return V(KInt, esize(tf(eng, st, recv, 'dtype').term))


@method('Tensor', 'dim')
def _dim(eng, st, recv, args, kwargs):
    return V(KInt, ListOps(KShape).len(tf(eng, st, recv, 'shape').term))


@method('Tensor', 'clone')
def _clone(eng, st, recv, args, kwargs):
    return like(eng, st, recv, tv(eng, st, recv))


@method('Tensor', 'to')
def _to(eng, st, recv, args, kwargs):
    """t.to(dtype | device | None): value preserved (casts are exact in mode R); aliases iff no-op."""
    (x,) = args
    if x.kind == KNone:
        return recv
    if isinstance(x.kind, KRef) and x.kind.cls == 'device':
        same = tf(eng, st, recv, 'device').term == x.term
        new = new_tensor(eng, st, tv(eng, st, recv), tf(eng, st, recv, 'shape'), tf(eng, st, recv, 'dtype'), x)
        return V(KRef('Tensor'), z3.If(same, recv.term, new.term))
    if isinstance(x.kind, KRef) and x.kind.cls in ('dtype', None):
        cur = tf(eng, st, recv, 'dtype')
        noop = z3.Or(x.term == 0, x.term == cur.term)
        new = like(eng, st, recv, tv(eng, st, recv), dtype=V(KDType, z3.If(x.term == 0, cur.term, x.term)))
        eng.assumptions.add('dtype casts preserve the mathematical value (floating point treated as real arithmetic)')
        return V(KRef('Tensor'), z3.If(noop, recv.term, new.term))
    raise Unsupported(f'Tensor.to({x.kind!r})')


for _nm, _dt in (('float', 3), ('bfloat16', 2), ('half', 1), ('double', 4)):
    def _mk(dt):
        def fn(eng, st, recv, args, kwargs):
            return _to(eng, st, recv, [V(KDType, z3.IntVal(dt))], {})
        return fn
    METHODS[('Tensor', _nm)] = _mk(_dt)


@method('Tensor', 'cpu')
def _cpu(eng, st, recv, args, kwargs):
    return _to(eng, st, recv, [V(KDevice, z3.IntVal(1))], {})


@method('Tensor', 'contiguous')
def _contiguous(eng, st, recv, args, kwargs):
    c = tf(eng, st, recv, 'contig').term
    new = like(eng, st, recv, tv(eng, st, recv))
    return V(KRef('Tensor'), z3.If(c, recv.term, new.term))


@method('Tensor', 't')
def _t(eng, st, recv, args, kwargs):
    sh = shape_list(eng, [dim(eng, st, recv, 1), dim(eng, st, recv, 0)])
    return like(eng, st, recv, mf('tr', M, M)(tv(eng, st, recv)), shape=sh, view=True, contig=False)


@method('Tensor', 'view', 'reshape')
def _view(eng, st, recv, args, kwargs):
    """Row-major re-interpretation: value = m_view(val, from_shape, to_shape) (alias of the storage)."""
    if len(args) == 1 and isinstance(args[0].kind, KList):
        tgt = args[0]
        neg = False
    else:
        items = [eng.as_int(a, st) for a in args]
        neg = any(eng.concrete_int(i) == -1 for i in items)
        src = tf(eng, st, recv, 'shape').term
        if neg:
            # one extent is inferred from numel
            known = [i for i in items if eng.concrete_int(i) != -1]
            prod = z3.IntVal(1)
            for k in known:
                prod = prod * k
            prod = z3.simplify(prod)
            inferred = mf('infer_extent', I, I, I)(numel(eng, src), prod)     # canonical: numel / prod
            eng.fact(st, z3.And(inferred >= 0, inferred * prod == numel(eng, src)))
            items = [inferred if eng.concrete_int(i) == -1 else i for i in items]
        tgt = shape_list(eng, items)
    src = tf(eng, st, recv, 'shape')
    val = mf('view', M, LS, LS, M)(tv(eng, st, recv), src.term, tgt.term)
    return like(eng, st, recv, val, shape=tgt, view=True)


@method('Tensor', 'sum')
def _sum(eng, st, recv, args, kwargs):
    return like(eng, st, recv, mf('sumall', M, M)(tv(eng, st, recv)), shape=eng.make_list([], KInt))


@method('Tensor', 'item')
def _item(eng, st, recv, args, kwargs):
    return V(KReal, mf('item', M, R)(tv(eng, st, recv)))


@method('Tensor', 'fill_')
def _fill_(eng, st, recv, args, kwargs):
    (c,) = args
    _, _, cr = eng.num_parts(c, st)
    val = mf('full', LS, R, M)(tf(eng, st, recv, 'shape').term, cr)
    eng.write_field(st, recv, 'val', V(KMat, val), cls='Tensor')
    return recv


@method('Tensor', 'new')
def _new(eng, st, recv, args, kwargs):
    items = [V(KInt, eng.as_int(a, st)) for a in args]
    return like(eng, st, recv, eng.fresh_term(M, 'uninit'), shape=shape_list(eng, items))


@method('Tensor', 'new_empty', 'new_ones', 'new_zeros')
def _new_like(eng, st, recv, args, kwargs, _kind=[None]):
    raise Unsupported('dispatch')


def _mk_new(kind):
    def fn(eng, st, recv, args, kwargs):
        sh = args[0]
        if isinstance(sh.kind, KTuple):
            sh = shape_list(eng, [V(KInt, eng.as_int(i, st)) for i in tuple_items(sh)])
        if kind == 'empty':
            # uninitialised storage: arbitrary content, different for every allocation, nameable through the
            # storage id of the new tensor (uninit(t.sid) in contracts)
            sid = fresh_sid(eng, st)
            val = mf('uninit', I, M)(sid)
            return new_tensor(eng, st, val, sh, tf(eng, st, recv, 'dtype'), tf(eng, st, recv, 'device'), sid=sid)
        val = mf('full', LS, R, M)(sh.term, z3.RealVal(1 if kind == 'ones' else 0))
        return like(eng, st, recv, val, shape=sh)
    return fn


for _k in ('empty', 'ones', 'zeros'):
    METHODS[('Tensor', 'new_' + _k)] = _mk_new(_k)


# properties: .shape .dtype .device .data .grad .real are fields / views
def tensor_attr(eng, st, recv, attr):
    if attr in ('shape', 'dtype', 'device', 'grad', 'requires_grad'):
        return tf(eng, st, recv, attr)
    if attr in ('data', 'real'):
        return recv
    if attr in ('T', 'mT'):
        # transpose view of a 2-D tensor
        sh = shape_list(eng, [dim(eng, st, recv, 1), dim(eng, st, recv, 0)])
        return like(eng, st, recv, mf('tr', M, M)(tv(eng, st, recv)), shape=sh, view=True, contig=False)
    return None


# --------------------------------------------------------------------------- arithmetic
def tensor_binop(eng, st, op, a, b):
    ta, tb = is_tensor(a), is_tensor(b)
    if ta and tb:
        name = {'Add': 'add', 'Sub': 'sub', 'Mult': 'hmul', 'Div': 'hdiv', 'MatMult': 'mul'}.get(op)
        if name is None:
            raise Unsupported(f'tensor {op} tensor')
        va, vb = tv(eng, st, a), tv(eng, st, b)
        val = mf(name, M, M, M)(va, vb)
        da, db = tf(eng, st, a, 'dtype').term, tf(eng, st, b, 'dtype').term
        pdt = V(KDType, z3.If(da == db, da, mf('promote', I, I, I)(da, db)))     # torch type promotion
        if op == 'MatMult':
            sh = shape_list(eng, [dim(eng, st, a, 0), dim(eng, st, b, 1)])
        else:
            sh = tf(eng, st, a, 'shape')       # broadcasting: result has the larger operand's shape
            na = ListOps(KShape).len(sh.term)
            nb = ListOps(KShape).len(tf(eng, st, b, 'shape').term)
            sh = V(KShape, z3.If(na >= nb, sh.term, tf(eng, st, b, 'shape').term))
        return like(eng, st, a, val, shape=sh, dtype=pdt)
    t, s, left = (a, b, False) if ta else (b, a, True)     # left: scalar on the left
    _, _, sr = eng.num_parts(s, st)
    v = tv(eng, st, t)
    if op == 'Mult':
        val = mf('smul', R, M, M)(sr, v)
    elif op == 'Add':
        val = mf('sadd', M, R, M)(v, sr)
    elif op == 'Sub' and not left:
        val = mf('sadd', M, R, M)(v, -sr)
    elif op == 'Div' and not left:
        eng.require(st, sr != 0, 'ZeroDivisionError', 'tensor / 0') if False else None
        val = mf('sdiv', M, R, M)(v, sr)
    elif op == 'Div' and left:
        val = mf('rdiv', R, M, M)(sr, v)
    elif op == 'Pow' and not left:
        val = mf('spow', M, R, M)(v, sr)
    else:
        raise Unsupported(f'tensor/scalar {op} (scalar on the {"left" if left else "right"})')
    return like(eng, st, t, val)


def tensor_inplace(eng, st, op, recv, other, alpha=None):
    """`recv op= other` / recv.op_(other): the receiver's storage is overwritten; the result of the
    out-of-place operation is cast to the receiver's dtype (torch semantics for in-place ops)."""
    if alpha is not None:
        other = eng.binop('Mult', other, alpha, st) if is_tensor(other) else eng.binop('Mult', alpha, other, st)
    res = tensor_binop(eng, st, op, recv, other)
    val = tv(eng, st, res)      # cast back to the receiver's dtype: exact in mode R (see Tensor.to)
    eng.assumptions.add('dtype casts preserve the mathematical value (floating point treated as real arithmetic)')
    eng.write_field(st, recv, 'val', V(KMat, val), cls='Tensor')
    return recv


def _mk_inplace(op):
    def f(eng, st, recv, args, kwargs):
        other = args[0]
        return tensor_inplace(eng, st, op, recv, other, alpha=kwargs.get('alpha'))
    return f


for _n, _op in (('mul_', 'Mult'), ('add_', 'Add'), ('sub_', 'Sub'), ('div_', 'Div')):
    method('Tensor', _n)(_mk_inplace(_op))


@method('Tensor', 'copy_')
def _copy_(eng, st, recv, args, kwargs):
    src = args[0]
    val = tv(eng, st, src)
    eng.write_field(st, recv, 'val', V(KMat, val), cls='Tensor')
    return recv


@method('Tensor', 'zero_')
def _zero_(eng, st, recv, args, kwargs):
    return _fill_(eng, st, recv, [V(KInt, z3.IntVal(0))], {})


def _index_tensor(eng, st, e):
    v = eng.eval(e, st)
    if not is_tensor(v):
        if isinstance(v.kind, KRef) and v.kind.cls is None:
            v = V(KRef('Tensor'), v.term)
        else:
            raise Unsupported(f'tensor index {ast.unparse(e)}')
    return v


def tensor_setitem(eng, st, base, sl, value, transposed=False):
    """base[i0, i1] = value with two index tensors (index_put_): writes base's storage in place.
    transposed=True: the write goes through base.transpose(0, 1), i.e. base[i1, i0] = value."""
    if not (isinstance(sl, ast.Tuple) and len(sl.elts) == 2 and not any(isinstance(e, ast.Slice) for e in sl.elts)):
        raise Unsupported(f'tensor item assignment [{ast.unparse(sl)}]')
    i0, i1 = (_index_tensor(eng, st, e) for e in sl.elts)
    if not is_tensor(value):
        raise Unsupported('tensor item assignment of a non-tensor')
    put = mf('put2', M, M, M, M, M)
    cur = tv(eng, st, base)
    if transposed:
        new = mf('tr', M, M)(put(mf('tr', M, M)(cur), tv(eng, st, i0), tv(eng, st, i1), tv(eng, st, value)))
    else:
        new = put(cur, tv(eng, st, i0), tv(eng, st, i1), tv(eng, st, value))
    eng.write_field(st, base, 'val', V(KMat, new), cls='Tensor')


def tensor_getitem(eng, st, base, node):
    """t[:, :-1], t[:, -1:] (column blocks, views), t[k] (row k), t[i0, i1] with two index tensors (gather)."""
    sl = node.slice
    if isinstance(sl, ast.Constant) and isinstance(sl.value, int) and not isinstance(sl.value, bool):
        # row k of a 2-D tensor (a view): shape = shape[1:]
        k = sl.value
        cols = dim(eng, st, base, 1)
        return like(eng, st, base, mf('row', M, I, M)(tv(eng, st, base), z3.IntVal(k)), shape=shape_list(eng, [cols]), view=True)
    if isinstance(sl, ast.Tuple) and len(sl.elts) == 2 and not any(isinstance(e, ast.Slice) for e in sl.elts):
        i0, i1 = (_index_tensor(eng, st, e) for e in sl.elts)
        val = mf('gather2', M, M, M, M)(tv(eng, st, base), tv(eng, st, i0), tv(eng, st, i1))
        return like(eng, st, base, val, shape=tf(eng, st, i0, 'shape'))
    if isinstance(sl, ast.Tuple) and len(sl.elts) == 2 and all(isinstance(e, ast.Slice) for e in sl.elts):
        r, c = sl.elts
        if r.lower is None and r.upper is None and c.step is None:
            def const(n):
                if n is None:
                    return None
                v = eng.eval(n, st)
                return eng.concrete_int(eng.as_int(v, st))
            lo, hi = const(c.lower), const(c.upper)
            rows, cols = dim(eng, st, base, 0), dim(eng, st, base, 1)
            if lo is None and hi == -1:
                return like(eng, st, base, mf('lcols', M, M)(tv(eng, st, base)),
                            shape=shape_list(eng, [rows, cols - 1]), view=True, contig=False)
            if lo == -1 and hi is None:
                return like(eng, st, base, mf('lastcol', M, M)(tv(eng, st, base)),
                            shape=shape_list(eng, [rows, z3.IntVal(1)]), view=True, contig=False)
    raise Unsupported(f'tensor subscript {ast.unparse(node)}')


# --------------------------------------------------------------------------- torch.* functions
def _dev_dtype(eng, st, kwargs, like_t=None):
    dt = kwargs.get('dtype')
    dv = kwargs.get('device')
    if dt is None or dt.kind == KNone:
        dt = tf(eng, st, like_t, 'dtype') if like_t is not None else V(KDType, z3.IntVal(3))
    if dv is None or dv.kind == KNone:
        dv = tf(eng, st, like_t, 'device') if like_t is not None else V(KDevice, z3.IntVal(1))
    return dt, dv


@builtin('torch.empty')
def _empty(eng, st, args, kwargs):
    sh = args[0]
    if isinstance(sh.kind, KTuple):
        sh = shape_list(eng, [V(KInt, eng.as_int(i, st)) for i in tuple_items(sh)])
    elif sh.kind == KInt:
        sh = shape_list(eng, [V(KInt, eng.as_int(a, st)) for a in args])
    dt, dv = _dev_dtype(eng, st, kwargs)
    return new_tensor(eng, st, eng.fresh_term(M, 'uninit'), sh, dt, dv)


@builtin('torch.empty_like', 'torch.zeros_like')
def _empty_like(eng, st, args, kwargs):
    return like(eng, st, args[0], eng.fresh_term(M, 'uninit'))


@builtin('torch.diag')
def _diag(eng, st, args, kwargs):
    (v,) = args
    n = dim(eng, st, v, 0)
    return like(eng, st, v, mf('diag', M, M)(tv(eng, st, v)), shape=shape_list(eng, [n, n]))


@builtin('torch.outer')
def _outer(eng, st, args, kwargs):
    u, v = args
    return like(eng, st, u, mf('outer', M, M, M)(tv(eng, st, u), tv(eng, st, v)),
                shape=shape_list(eng, [dim(eng, st, u, 0), dim(eng, st, v, 0)]))


@builtin('torch.clamp')
def _clamp(eng, st, args, kwargs):
    (x,) = args
    mn = kwargs.get('min')
    if mn is None or 'max' in kwargs:
        raise Unsupported('clamp without min / with max')
    _, _, r = eng.num_parts(mn, st)
    return like(eng, st, x, mf('clampmin', M, R, M)(tv(eng, st, x), r))


@builtin('torch.linalg.inv')
def _inv(eng, st, args, kwargs):
    (a,) = args
    return like(eng, st, a, mf('inv', M, M)(tv(eng, st, a)))


@builtin('torch.linalg.eigh')
def _eigh(eng, st, args, kwargs):
    (a,) = args
    va = tv(eng, st, a)
    d = like(eng, st, a, mf('eigvals', M, M)(va), shape=shape_list(eng, [dim(eng, st, a, 0)]))
    q = like(eng, st, a, mf('eigvecs', M, M)(va))
    return TupV([d, q])


@builtin('torch.linalg.eig')
def _eig(eng, st, args, kwargs):
    (a,) = args
    va = tv(eng, st, a)
    d = like(eng, st, a, mf('eigvals_ns', M, M)(va), shape=shape_list(eng, [dim(eng, st, a, 0)]))
    q = like(eng, st, a, mf('eigvecs_ns', M, M)(va))
    return TupV([d, q])


@builtin('torch.cat')
def _cat(eng, st, args, kwargs):
    lst = args[0]
    d = args[1] if len(args) > 1 else kwargs.get('dim', IntV(0))
    items = None
    if isinstance(lst.kind, KList):
        n = eng.concrete_int(ListOps(lst.kind).len(lst.term))
        if n is not None:
            items = [V(lst.kind.elem, z3.simplify(ListOps(lst.kind).at(lst.term, z3.IntVal(i)))) for i in range(n)]
    elif isinstance(lst.kind, KTuple):
        items = tuple_items(lst)
    if items is None or len(items) != 2:
        raise Unsupported('torch.cat of other than two tensors')
    a, b = [coerce(i, KRef('Tensor')) for i in items]
    dd = eng.concrete_int(eng.as_int(d, st))
    if dd not in (1, -1):
        raise Unsupported('torch.cat along a dimension other than the last of 2-D operands')
    val = mf('hcat', M, M, M)(tv(eng, st, a), tv(eng, st, b))
    sh = tf(eng, st, a, 'shape').term
    lo = ListOps(KShape)
    n = lo.len(sh)
    cs = lo._concrete(sh)
    if cs is not None and len(cs) >= 1:
        nsh = lo.from_items(cs[:-1] + [z3.simplify(cs[-1] + dim(eng, st, b, -1))])
    else:
        nsh = _set_dim(sh, n - 1, lo.at(sh, n - 1) + dim(eng, st, b, -1))
    return like(eng, st, a, val, shape=V(KShape, nsh))


# --------------------------------------------------------------------------- futures
TENSOR_STATE = ('val', 'shape', 'dtype', 'device', 'contig')


@method('new', 'Future')
def _future_new(eng, st, recv, args, kwargs):
    """torch.futures.Future(): the value it will hold is a prophecy -- a tensor object allocated now whose
    abstract state is unconstrained until set_result() resolves it."""
    p = eng.alloc(st, 'Tensor')
    eng.write_field(st, p, 'grad', NONE, cls='Tensor')
    eng.write_field(st, p, 'sid', V(KInt, fresh_sid(eng, st)), cls='Tensor')
    f = eng.alloc(st, 'Future')
    eng.write_field(st, f, 'will_be', p, cls='Future')
    eng.write_field(st, f, 'resolved', BoolV(False), cls='Future')
    return f


@method('Future', 'wait')
def _wait(eng, st, recv, args, kwargs):
    eng.write_field(st, recv, 'resolved', BoolV(True), cls='Future')
    return eng.read_field(st, recv, 'will_be', cls='Future')


@method('Future', 'value')
def _value(eng, st, recv, args, kwargs):
    return eng.read_field(st, recv, 'will_be', cls='Future')


@method('WorkFuture', 'value')
def _value_list(eng, st, recv, args, kwargs):
    return eng.make_list([eng.read_field(st, recv, 'will_be', cls='Future')], KRef('Tensor'))


@method('Future', 'set_result')
def _set_result(eng, st, recv, args, kwargs):
    """Resolution of the prophecy: from here on the prophesied tensor has the abstract state of the actual
    result (assume; sound because a future is resolved at most once -- torch raises otherwise -- and nothing
    else constrains the prophecy).  The heap is not written: values derived from the prophecy when call-backs
    were attached (S8) are thereby determined."""
    (x,) = args
    p = eng.read_field(st, recv, 'will_be', cls='Future')
    for f_ in TENSOR_STATE:
        a, b = tf(eng, st, p, f_), tf(eng, st, x, f_)
        eng.fact(st, a.term == b.term)
    eng.assumptions.add('S8b: a torch future is resolved at most once; set_result(x) makes the prophesied tensor equal to x '
                        'in value, shape, dtype, device (object identity of the result is not tracked)')
    return NONE


@method('Future', 'then')
def _then(eng, st, recv, args, kwargs):
    """fut.then(cb): new future whose value is cb(fut) (evaluated now; see assumption S8)."""
    (cb,) = args
    res = eng.call_value(cb, [recv], {}, st)
    f = eng.alloc(st, 'Future')
    eng.write_field(st, f, 'will_be', coerce(res, KRef('Tensor')), cls='Future')
    eng.write_field(st, f, 'resolved', BoolV(False), cls='Future')
    eng.assumptions.add('S8: future call-backs are modelled as running atomically; their value is fixed when the future is created')
    return f


@method('Future', 'add_done_callback')
def _add_done(eng, st, recv, args, kwargs):
    (cb,) = args
    eng.call_value(cb, [recv], {}, st)
    eng.assumptions.add('S8: future call-backs are modelled as running atomically; their value is fixed when the future is created')
    return NONE


@method('Work', 'get_future')
def _get_future(eng, st, recv, args, kwargs):
    return eng.read_field(st, recv, 'fut', cls='Work')


# --------------------------------------------------------------------------- index-layout ops (conv helpers)


def _norm_dim(eng, st, recv, d):
    di = eng.concrete_int(eng.as_int(d, st))
    if di is None:
        raise Unsupported('symbolic dimension index')
    if di < 0:
        return ListOps(KShape).len(tf(eng, st, recv, 'shape').term) + di
    return z3.IntVal(di)


def _transpose_val(eng, st, recv, args):
    i, j = _norm_dim(eng, st, recv, args[0]), _norm_dim(eng, st, recv, args[1])
    sh = tf(eng, st, recv, 'shape').term
    lo = ListOps(KShape)
    nsh = _set_dim(_set_dim(sh, i, lo.at(sh, j)), j, lo.at(sh, i))
    val = mf('transpose', M, I, I, M)(tv(eng, st, recv), i, j)
    return val, V(KShape, nsh)


@method('Tensor', 'transpose')
def _transpose(eng, st, recv, args, kwargs):
    val, sh = _transpose_val(eng, st, recv, args)
    return like(eng, st, recv, val, shape=sh, view=True, contig=False)


@method('Tensor', 'transpose_')
def _transpose_(eng, st, recv, args, kwargs):
    val, sh = _transpose_val(eng, st, recv, args)
    eng.write_field(st, recv, 'val', V(KMat, val), cls='Tensor')
    eng.write_field(st, recv, 'shape', canon_shape(sh), cls='Tensor')
    eng.write_field(st, recv, 'contig', BoolV(False), cls='Tensor')
    return recv


@method('Tensor', 'unfold')
def _unfold(eng, st, recv, args, kwargs):
    d = _norm_dim(eng, st, recv, args[0])
    size, step = eng.as_int(args[1], st), eng.as_int(args[2], st)
    sh = tf(eng, st, recv, 'shape').term
    lo = ListOps(KShape)
    n = lo.at(sh, d)
    q, _ = eng.divmod_witness(n - size, step, st)
    nsh = _set_dim(sh, d, q + 1)
    nsh = lo.append(nsh, size)
    val = mf('unfold', M, I, I, I, M)(tv(eng, st, recv), d, size, step)
    return like(eng, st, recv, val, shape=V(KShape, nsh), view=True, contig=False)


@builtin('torch.nn.functional.pad')
def _pad(eng, st, args, kwargs):
    x, p = args[0], args[1]
    items = [eng.as_int(i, st) for i in tuple_items(p)]
    if len(items) != 4:
        raise Unsupported('pad with other than 4 amounts')
    l, r, t, b = items
    sh = tf(eng, st, x, 'shape').term
    lo = ListOps(KShape)
    n = lo.len(sh)
    nsh = _set_dim(_set_dim(sh, n - 1, lo.at(sh, n - 1) + l + r), n - 2, lo.at(sh, n - 2) + t + b)
    val = mf('pad', M, I, I, I, I, M)(tv(eng, st, x), l, r, t, b)
    return like(eng, st, x, val, shape=V(KShape, nsh))


# --------------------------------------------------------------------------- flatten / unflatten (bucketed allreduce)
def _arr(eng, st, fname):
    key, kind = eng.field_decl('Tensor', fname)
    return eng.heap_array(st, key, kind)


def _flat_fns(eng, st):
    LT = KList(KRef('Tensor')).sort()
    AV, AS = _arr(eng, st, 'val').sort(), _arr(eng, st, 'shape').sort()
    return LT, AV, AS


@builtin('kfac.distributed.flatten', 'torch._utils._flatten_dense_tensors')
def _flatten(eng, st, args, kwargs):
    """One contiguous 1-D tensor holding the elements of all tensors of the list, in order."""
    (ts,) = args
    if not (isinstance(ts.kind, KList) and isinstance(ts.kind.elem, KRef)):
        raise Unsupported('flatten of a non-list')
    LT, AV, AS = _flat_fns(eng, st)
    hv, hs, hd = _arr(eng, st, 'val'), _arr(eng, st, 'shape'), _arr(eng, st, 'dtype')
    val = z3.Function('m_flatten', LT, AV, M)(ts.term, hv)
    n = z3.Function('flat_numel', LT, AS, I)(ts.term, hs)
    dt = z3.Function('flat_dtype', LT, hd.sort(), I)(ts.term, hd)
    lo = ListOps(ts.kind)
    eng.fact(st, lo.len(ts.term) >= 0)
    eng.require(st, lo.len(ts.term) > 0, 'RuntimeError', 'flatten of an empty list')
    first = V(KRef('Tensor'), lo.at(ts.term, z3.IntVal(0)))
    eng.assumptions.add('flatten(ts) concatenates the elements of ts in order (type-promoting like torch.cat); unflatten is its '
                        'inverse layout change; all_reduce acts element-wise (axiom U1)')
    new = new_tensor(eng, st, val, shape_list(eng, [n]), V(KDType, dt), tf(eng, st, first, 'device'))
    # flatten([t]) is a view of t: writes to the result (an in-place all_reduce) are writes to t.  The model
    # returns t itself in that case (its shape is not the flat shape, which only the event's numel reads).
    eng.fact(st, z3.Implies(lo.len(ts.term) == 1, z3.And(val == tv(eng, st, first), n == numel(eng, tf(eng, st, first, 'shape').term),
                                                         dt == tf(eng, st, first, 'dtype').term)))
    return V(KRef('Tensor'), z3.If(lo.len(ts.term) == 1, first.term, new.term))


@builtin('kfac.distributed.unflatten', 'torch._utils._unflatten_dense_tensors')
def _unflatten(eng, st, args, kwargs):
    """List of new tensors (views of flat) with the shapes of `ts` and flat's dtype."""
    flat, ts = args
    LT, AV, AS = _flat_fns(eng, st)
    hv, hs = _arr(eng, st, 'val'), _arr(eng, st, 'shape')
    lo = ListOps(ts.kind)
    n = lo.len(ts.term)
    piece = z3.Function('m_piece', M, LT, I, M)
    fv, fdt, fdev, fsid = tv(eng, st, flat), tf(eng, st, flat, 'dtype').term, tf(eng, st, flat, 'device').term, tf(eng, st, flat, 'sid').term
    tst, hs0 = ts.term, hs
    out = eng.alloc_block(st, 'Tensor', n, {
        'val': lambda i: piece(fv, tst, i),
        'shape': lambda i: z3.Select(hs0, lo.at(tst, i)),
        'dtype': lambda i: fdt, 'device': lambda i: fdev, 'sid': lambda i: fsid,
        'contig': lambda i: z3.BoolVal(True), 'grad': lambda i: z3.IntVal(0),
    })
    # U1: a piece of the element-wise sum of the flattened buffer is the sum of the corresponding tensor
    key = 'U1'
    if key not in eng.uf_cache:
        eng.uf_cache[key] = True
        L, H, S, g, i = z3.Const('uL', LT), z3.Const('uH', AV), z3.Const('uS', AS), z3.Const('ug', Vm.SetIntS), z3.Int('ui')
        allsum = mf('allsum', M, Vm.SetIntS, M)
        flatten = z3.Function('m_flatten', LT, AV, M)
        lhs = piece(allsum(flatten(L, H), g), L, i)
        eng.facts.append(z3.ForAll([L, H, g, i], z3.Implies(z3.And(i >= 0, i < ListOps(ts.kind).len(L)),
                                                               lhs == allsum(z3.Select(H, ListOps(ts.kind).at(L, i)), g)),
                                   patterns=[lhs]))
    return out


@builtin('torch.triu_indices')
def _triu_indices(eng, st, args, kwargs):
    """2 x K tensor of the (row, column) indices of the upper triangle (from diagonal `offset`), row-major."""
    r = eng.as_int(args[0], st)
    c = eng.as_int(args[1], st)
    off = eng.as_int(args[2], st) if len(args) > 2 else (eng.as_int(kwargs['offset'], st) if 'offset' in kwargs else z3.IntVal(0))
    val = mf('triuidx', I, I, I, M)(r, c, off)
    k = z3.If(off == 0, mf('tri_numel', I, I, I)(r, c), mf('tri_numel_off', I, I, I, I)(r, c, off))
    dv = kwargs.get('device')
    dev = dv if (dv is not None and dv.kind != KNone) else V(KDevice, z3.IntVal(1))
    eng.assumptions.add('torch.triu_indices / advanced indexing t[i0, i1] / index assignment are uninterpreted operations '
                        '(triuidx, gather2, put2); their element-level meaning is the axiom group "triu" used by the C14 lemmas')
    return new_tensor(eng, st, val, shape_list(eng, [z3.IntVal(2), k]), V(KDType, z3.IntVal(5)), dev)


@method('Tensor', 'diagonal')
def _diagonal(eng, st, recv, args, kwargs):
    return like(eng, st, recv, mf('diagonal', M, M)(tv(eng, st, recv)), shape=shape_list(eng, [dim(eng, st, recv, 0)]), view=True, contig=False)


def _elementwise_pred(name):
    def fn(eng, st, args, kwargs):
        (x,) = args
        return like(eng, st, x, mf(name, M, M)(tv(eng, st, x)), dtype=V(KDType, z3.IntVal(6)))
    return fn


for _n in ('isfinite', 'isnan', 'isinf'):
    TABLE['torch.' + _n] = _elementwise_pred(_n)
    METHODS[('Tensor', _n)] = (lambda nm: (lambda eng, st, recv, args, kwargs: _elementwise_pred(nm)(eng, st, [recv], {})))(_n)


def _reduce_bool(name):
    def fn(eng, st, recv, args, kwargs):
        return like(eng, st, recv, mf('r' + name, M, M)(tv(eng, st, recv)), shape=shape_list(eng, []))
    return fn


METHODS[('Tensor', 'all')] = _reduce_bool('all')
METHODS[('Tensor', 'any')] = _reduce_bool('any')


def tensor_truth(eng, st, t):
    """bool(t) of a one-element tensor: an uninterpreted predicate of its value."""
    return z3.Function('m_truth', M, z3.BoolSort())(tv(eng, st, t))


@builtin('torch.eye')
def _eye(eng, st, args, kwargs):
    """torch.eye(n, dtype=None, device=None): the n x n identity in the DEFAULT dtype (float32) unless dtype is given."""
    n = eng.as_int(args[0], st)
    dt = kwargs.get('dtype')
    dv = kwargs.get('device')
    dtype = dt if (dt is not None and dt.kind != KNone) else V(KDType, z3.IntVal(3))
    dev = dv if (dv is not None and dv.kind != KNone) else V(KDevice, z3.IntVal(1))
    val = mf('diag', M, M)(mf('full', LS, R, M)(shape_list(eng, [V(KInt, n)]).term, z3.RealVal(1)))
    return new_tensor(eng, st, val, shape_list(eng, [V(KInt, n), V(KInt, n)]), dtype, dev)


# --------------------------------------------------------------------------- more of the functional API (robustness: a
# rewrite that uses the method form of an operator, or a constructor variant, stays inside the generator's subset)
def _binop_method(op):
    def fn(eng, st, recv, args, kwargs):
        if kwargs.get('alpha') is not None or kwargs.get('out') is not None:
            raise Unsupported('tensor method with alpha= / out=')
        return tensor_binop(eng, st, op, recv, args[0])
    return fn


for _n, _op in (('mul', 'Mult'), ('add', 'Add'), ('sub', 'Sub'), ('div', 'Div'), ('matmul', 'MatMult'), ('mm', 'MatMult')):
    if ('Tensor', _n) not in METHODS:
        METHODS[('Tensor', _n)] = _binop_method(_op)


def _binop_function(op):
    def fn(eng, st, args, kwargs):
        if kwargs:
            raise Unsupported('torch binary function with keyword arguments')
        return tensor_binop(eng, st, op, args[0], args[1])
    return fn


for _n, _op in (('mul', 'Mult'), ('add', 'Add'), ('sub', 'Sub'), ('div', 'Div'), ('matmul', 'MatMult'), ('mm', 'MatMult')):
    if 'torch.' + _n not in TABLE:
        TABLE['torch.' + _n] = _binop_function(_op)


@method('Tensor', 'detach')
def _detach(eng, st, recv, args, kwargs):
    return like(eng, st, recv, tv(eng, st, recv), view=True)


def _filled(value):
    def fn(eng, st, args, kwargs):
        sh = args[0] if len(args) == 1 else eng.make_list(list(args), KInt)
        if isinstance(sh.kind, KTuple):
            sh = shape_list(eng, [V(KInt, eng.as_int(i, st)) for i in tuple_items(sh)])
        elif sh.kind == KInt:
            sh = shape_list(eng, [sh])
        dt, dv = _dev_dtype(eng, st, kwargs)
        val = mf('full', LS, R, M)(sh.term, z3.RealVal(value))
        return new_tensor(eng, st, val, sh, dt, dv)
    return fn


for _n, _v in (('zeros', 0), ('ones', 1)):
    if 'torch.' + _n not in TABLE:
        TABLE['torch.' + _n] = _filled(_v)


@builtin('torch.ones_like')
def _ones_like(eng, st, args, kwargs):
    t = args[0]
    return like(eng, st, t, mf('full', LS, R, M)(tf(eng, st, t, 'shape').term, z3.RealVal(1)))
