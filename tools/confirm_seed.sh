#!/bin/bash
# confirm_seed.sh <PID> <changeN> : confirm a sub-agent's seeded change in a scratch worktree and
# store it under /verif/seeded/<PID>-<N>/ (patch.diff, demo.py, notes.md, meta.json).
set -u
PID=$1; CH=$2
SRC=${SEED_SRC:-/tmp/seed_out}/$PID/$CH
N=${3:-${CH#change}}
DST=/verif/seeded/$PID-$N
WT=$(mktemp -d /tmp/cw.XXXXXX)
rmdir $WT
git -C /repo worktree add -q --detach $WT HEAD || exit 3
cleanup() { git -C /repo worktree remove --force $WT 2>/dev/null; rm -rf $WT; }
trap cleanup EXIT
cd $WT
cp $SRC/demo.py $WT/_demo.py
PYTHONPATH=$WT timeout 900 /venv/bin/python _demo.py > /tmp/cs.$PID.$N.clean.log 2>&1; CLEAN=$?
git apply $SRC/patch.diff || { echo "$PID $CH: patch does not apply"; exit 3; }
PYTHONPATH=$WT timeout 900 /venv/bin/python _demo.py > /tmp/cs.$PID.$N.mut.log 2>&1; MUT=$?
rm -f _demo.py
/venv/bin/python -m pytest -q -p no:cacheprovider --timeout=900 -x -q > /tmp/cs.$PID.$N.pytest.log 2>&1; PT=$?
SUMMARY=$(grep -E "passed|failed" /tmp/cs.$PID.$N.pytest.log | tail -1)
if [ $CLEAN -eq 0 ] && [ $MUT -ne 0 ] && [ $PT -eq 0 ]; then
  mkdir -p $DST
  cp $SRC/patch.diff $SRC/demo.py $DST/
  cp $SRC/notes.md $DST/ 2>/dev/null
  python3 - "$PID" "$N" "$SUMMARY" "$DST" <<'PY'
import json,sys,re
pid,n,summary,dst=sys.argv[1:5]
notes=open(dst+'/notes.md').read() if __import__('os').path.exists(dst+'/notes.md') else ''
json.dump({'id':f'{pid}-{n}','breaks_property':pid,
 'needs_to_manifest':'see notes.md (written by the sub-agent that produced the change)',
 'confirmed':{'demo_on_clean_tree':'exit 0','demo_with_patch':'non-zero exit','pytest_with_patch':summary,
   'how':'tools/confirm_seed.sh in a scratch git worktree of /repo HEAD (removed afterwards)'},
 'source':'independent sub-agent given only the property text and a scratch worktree'},
 open(dst+'/meta.json','w'),indent=1)
PY
  echo "$PID $CH: CONFIRMED ($SUMMARY)"
else
  echo "$PID $CH: REJECTED clean=$CLEAN mut=$MUT pytest=$PT ($SUMMARY)"
fi
