#!/bin/bash
# fn.sh <PID> <function key> : verify one function and print a compact summary
cd /verif
python3-vt -m pyvc.driver $1 --func "$2" 2>&1 | python3 -c "
import json,sys
raw=sys.stdin.read()
cand=[l for l in raw.splitlines() if l.startswith('{')]
try: d=json.loads(cand[-1])
except Exception: print(raw[-3000:]); sys.exit()
extra=[l for l in raw.splitlines() if not l.startswith('{')]
if extra: print('   [stdout noise]', ' | '.join(extra)[:300])
print(d['key'],d['status'],d['error'][-700:])
for o in d['obligations']:
    if o['status']!='discharged': print('  ',o['status'],o['name'].split('/',1)[1],'|',o['reason'],o.get('time_s'), str(o.get('model',''))[:400])
print('  n=',len(d['obligations']),'bad covers',[c for c in d['covers'] if c['result']!='sat'],'wall',d.get('wall_s'), 'slowest', sorted([(o['time_s'],o['name'].split('/',1)[1]) for o in d['obligations']])[-2:])
"
