#!/bin/bash
# mutant.sh <PID> <file relative to repo> <sed expression> : run ./check PID against a scratch copy with a mutation
PID=$1; F=$2; EXPR=$3
D=$(mktemp -d /tmp/mut.XXXXXX)
cp -r /repo/kfac /repo/testing $D/ 2>/dev/null
sed -i -E "$EXPR" $D/$F
if diff -q /repo/$F $D/$F >/dev/null; then echo "MUTATION DID NOT APPLY"; rm -rf $D; exit 9; fi
diff /repo/$F $D/$F | head -6
PYVC_REPO=$D /verif/check $PID | cut -c1-400
rc=${PIPESTATUS[0]}
rm -rf $D
echo "exit=$rc"
