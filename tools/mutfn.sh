#!/bin/bash
# mutfn.sh <function key> <file relative to repo> <sed expression> : verify one function against a mutated scratch copy
KEY=$1; F=$2; EXPR=$3
D=$(mktemp -d /tmp/mut.XXXXXX)
cp -r /repo/kfac $D/
sed -i -E "$EXPR" $D/$F
if diff -q /repo/$F $D/$F >/dev/null; then echo "MUTATION DID NOT APPLY"; rm -rf $D; exit 9; fi
diff /repo/$F $D/$F | head -4
PYVC_REPO=$D /verif/tools/fn.sh - "$KEY" | cut -c1-700
rm -rf $D
