#!/bin/bash
# seedrun.sh <seed-id> <PID> [<PID> ...] : run the checks of the given properties against a scratch
# copy of /repo with the seeded change applied (the working tree of /repo is not touched).
# Evidence goes to a scratch directory; prints one line per (seed, property).
S=$1; shift
D=$(mktemp -d /tmp/seed.XXXXXX)
cp -r /repo/kfac /repo/testing $D/ 2>/dev/null
( cd $D && patch -s -p1 < /verif/seeded/$S/patch.diff ) || { echo "$S: patch does not apply"; rm -rf $D; exit 9; }
for P in "$@"; do
  OUT=$(PYVC_REPO=$D PYVC_EVIDENCE_DIR=$D/evidence /verif/check $P 2>&1); rc=$?
  echo "$S $P exit=$rc :: $(echo "$OUT" | grep -E "VIOLATION|UNDECIDED|KNOWN" | head -3 | cut -c1-300 | tr '\n' ' ')"
done
rm -rf $D
