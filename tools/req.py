import json,subprocess,sys
sys.path.insert(0,'/verif')
from pyvc import driver; driver.load_contracts()
from pyvc.contracts import export_contract
key=sys.argv[1]
req={'property':'X','obligation':key+'/x','function':key,'contract':export_contract(key),'seed':0,'budget':int(sys.argv[2]) if len(sys.argv)>2 else 50}
p=subprocess.run(['/venv/bin/python','/verif/harness/falsify.py'],input=json.dumps(req),capture_output=True,text=True,cwd='/verif',env={'PYTHONPATH':'/repo','PATH':'/usr/bin:/bin'})
try:
    d=json.loads(p.stdout.strip().splitlines()[-1])
    w=d.pop('witness',None)
    print(json.dumps(d)[:1500]); print('witness note:', (w or {}).get('note'))
except Exception:
    print(p.stdout[-1500:])
print(p.stderr[-800:])
