#!/bin/bash
# seedtable.sh : run every seeded change against the check of the property it breaks (scratch copies; /repo untouched)
# and write seeded/TABLE.txt
cd /verif
OUT=seeded/TABLE.txt
: > $OUT.tmp
CLAIMED=$(python3 -c "import json; print(' '.join(sorted(json.load(open('tools/claimed.json')))))")
for d in seeded/C*/; do
  s=$(basename $d); p=${s%-*}
  if ! echo " $CLAIMED " | grep -q " $p "; then echo "$s $p not-claimed" >> $OUT.tmp; continue; fi
  (cd /repo && git apply --check /verif/seeded/$s/patch.diff 2>/dev/null) || { echo "$s $p patch-does-not-apply (obsolete)" >> $OUT.tmp; continue; }
  tools/seedrun.sh $s $p | cut -c1-160 >> $OUT.tmp
done
mv $OUT.tmp $OUT
cat $OUT
