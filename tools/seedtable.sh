#!/bin/bash
# seedtable.sh [P] : run every seeded change against the check of the property it breaks (scratch copies; /repo
# untouched), P runs at a time (default 3), and write seeded/TABLE.txt
cd /verif
P=${1:-3}
OUT=seeded/TABLE.txt
CLAIMED=$(python3 -c "import json; print(' '.join(sorted(json.load(open('tools/claimed.json')))))")
one() {
  s=$1; p=${s%-*}
  if ! echo " $CLAIMED " | grep -q " $p "; then echo "$s $p not-claimed"; return; fi
  (cd /repo && git apply --check /verif/seeded/$s/patch.diff 2>/dev/null) || { echo "$s $p patch-does-not-apply (obsolete)"; return; }
  tools/seedrun.sh $s $p | cut -c1-160
}
export -f one; export CLAIMED
ls -d seeded/C*/ | xargs -n1 basename | xargs -P $P -I{} bash -c 'one {}' | sort > $OUT.tmp
mv $OUT.tmp $OUT
cat $OUT
