#!/usr/bin/env python3
"""Regenerate MANIFEST.json from the table below (kept valid at all times)."""
import json, os
V = os.path.dirname(os.path.dirname(os.path.abspath(__file__)))
props = [json.loads(l) for l in open(os.path.join(V, 'properties.jsonl'))]
TECH = ("contract-based deductive verification: side-car contracts on the real functions, VCs generated from the ast of the "
        "current /repo source (passive form), discharged by z3 (cvc5 cross-check in thorough); bounded run-time contract "
        "falsifier on the real code used only to refute / replay")
CLAIMED = json.load(open(os.path.join(V, 'tools', 'claimed.json')))
m = {
    "version": 1, "setup_cmd": "./setup.sh",
    "hooks": {"guard": "KFAC_PYTORCH_VERIF",
              "enable": "no source hooks are needed: the prover reads /repo source text, the falsifier/replayer drives the real code from outside",
              "baseline_off_cmd": "cd /repo && /venv/bin/python -m pytest -ra -q -p no:cacheprovider --timeout=900 --continue-on-collection-errors",
              "source_commits": [], "add_only": True},
    "engines": [{"name": "pyvc", "path": "pyvc/", "serves_properties": sorted(CLAIMED),
                 "kind_free_text": "verification-condition generator over the ast of the real /repo source (re-read every run) + side-car contracts; z3 discharges; run-time contract falsifier (real code) refutes only"}],
    "checks": [], "not_applicable": [],
    "notes": "exit codes of ./check: 0 held, 1 VIOLATION, 2 UNDECIDED (no VIOLATION line), 3 checker error",
}
for p in props:
    pid = p['id']
    if pid in CLAIMED:
        c = CLAIMED[pid]
        m['checks'].append({
            "property_id": pid, "quick_cmd": f"./check {pid} --tier quick",
            "thorough_cmd": f"./check {pid} --tier thorough",
            "evidence_file": f"evidence/{pid}.json",
            "replay_cmd_template": "./check " + pid + " --replay {path}", "engine": "pyvc",
            "level_claimed": {"category": c.get('category', 'proof'), "text": c['text'], "design_ref": f"DESIGN.md section 7 ({pid}) and section 13"},
            "level_note": c['note'],
            "technique": (TECH if c.get('category', 'proof') == 'proof' else
                          "bounded stand-in of the contract-based family: side-car contracts on the real functions checked at run time "
                          "on generated inputs (real processes where ranks matter) against an executable reference written from the "
                          "property statement; no deductive obligation is discharged for this property and nothing is counted as proved")})
    else:
        na = json.load(open(os.path.join(V, 'tools', 'not_applicable.json')))
        m['not_applicable'].append({"property_id": pid, "reason": na.get(pid, "check not built yet in this session (contracts in progress); not claimed until its obligations discharge")})
json.dump(m, open(os.path.join(V, 'MANIFEST.json'), 'w'), indent=1)
print('claimed:', sorted(CLAIMED))
