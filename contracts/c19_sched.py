"""C19 — hyper-parameter schedulers; also the hyper-parameter getters used by C05/C07."""
from pyvc.contracts import contract, lemma, spec_def
from pyvc.values import KInt, KReal, KBool, KDyn, KFn, KRef

spec_def('fw', ['k', 'cap'], 'min(1 - 1 / max(k, 1), cap)')

HYPERS = ['factor_update_steps', 'inv_update_steps', 'damping', 'factor_decay', 'kl_clip', 'lr']

# ---------------------------------------------------------------- exp_decay_factor_averaging
contract(
    'kfac.hyperparams:exp_decay_factor_averaging',
    props=['C19'],
    params={'min_value': KReal},
    result=KFn,
    raises=[('ValueError', 'min_value <= 0')],
    ensures=[
        ('closure', "is_closure(result, 'exp_decay_factor_averaging._factor_weight')"),
        ('captures_cap', "captured(result, 'min_value') == min_value"),
    ],
    modifies=[],
)

contract(
    'kfac.hyperparams:exp_decay_factor_averaging._factor_weight',
    props=['C19'],
    params={'step': KInt},
    closure={'min_value': KReal},
    result=KReal,
    requires=[('cap_positive', 'min_value > 0')],       # established by the outer function's raises clause
    raises=[('ValueError', 'step < 0')],
    ensures=[
        ('closed_form', 'result == fw(step, min_value)'),
        ('in_range', '0 <= result and result <= min_value'),
        ('step0_is_step1', 'implies(step == 0, result == 0)'),
    ],
    lets={},
    modifies=[],
)

lemma(
    'kfac.hyperparams:exp_decay_factor_averaging._factor_weight', 'monotone', props=['C19'],
    vars={'k1': KInt, 'k2': KInt, 'cap': KReal},
    hyps=['0 <= k1', 'k1 <= k2', 'cap > 0'],
    goal='fw(k1, cap) <= fw(k2, cap)',
    text='the schedule min(1 - 1/max(k,1), cap) is non-decreasing in k',
)
lemma(
    'kfac.hyperparams:exp_decay_factor_averaging._factor_weight', 'bounded', props=['C19'],
    vars={'k': KInt, 'cap': KReal},
    hyps=['0 <= k', 'cap > 0'],
    goal='0 <= fw(k, cap) and fw(k, cap) <= cap',
)

# ---------------------------------------------------------------- hyper-parameter getters
for h in HYPERS:
    contract(
        f'kfac.base_preconditioner:BaseKFACPreconditioner.{h}',
        props=['C19', 'C05', 'C07'],
        result=KDyn,
        ensures=[
            ('value_at_current_step',
             f'same(result, self._{h}(self._steps) if callable(self._{h}) else self._{h})'),
        ],
        modifies=[],
    )

contract(
    'kfac.base_preconditioner:BaseKFACPreconditioner.steps',
    props=['C19', 'C05'],
    result=KInt,
    ensures=[('is_counter', 'result == self._steps')],
    modifies=[],
    mode='contract',
)

# ---------------------------------------------------------------- LambdaParamScheduler
lam = {f'{h}_lambda': KDyn for h in HYPERS}
contract(
    'kfac.scheduler:LambdaParamScheduler.__init__',
    props=['C19'],
    params={'preconditioner': KRef('BaseKFACPreconditioner'), **lam},
    requires=[('precond_not_none', 'preconditioner is not None')]
    + [(f'{h}_lambda_type', f'{h}_lambda is None or callable({h}_lambda)') for h in HYPERS],
    raises=[('ValueError', ' or '.join(
        f'({h}_lambda is not None and callable(preconditioner._{h}))' for h in HYPERS))],
    ensures=[('precond', 'self._preconditioner is preconditioner')]
    + [(f'stores_{h}', f'self._{h}_lambda is {h}_lambda') for h in HYPERS]
    + [(f'inv_{h}', f'implies(self._{h}_lambda is not None, not callable(self._preconditioner._{h}))')
       for h in HYPERS],
    modifies=['self._preconditioner'] + [f'self._{h}_lambda' for h in HYPERS],
)

K = '(step if step is not None else old(self._preconditioner._steps))'
contract(
    'kfac.scheduler:LambdaParamScheduler.step',
    props=['C19', 'C05'],
    params={'step': KDyn},
    requires=[('step_type', 'step is None or isinstance(step, int)'),
              ('precond_not_none', 'self._preconditioner is not None')]
    + [(f'{h}_lambda_type', f'self._{h}_lambda is None or callable(self._{h}_lambda)') for h in HYPERS]
    # representation invariant established by __init__ (inv_* clauses there)
    + [(f'inv_{h}', f'implies(self._{h}_lambda is not None, isinstance(self._preconditioner._{h}, (int, float)))')
       for h in HYPERS]
    # the user's factor functions return numbers
    + [(f'{h}_factor_numeric',
        f'implies(self._{h}_lambda is not None, isinstance(self._{h}_lambda({K}), (int, float)))')
       for h in HYPERS],
    ensures=[
        (f'{h}_scaled',
         f'same(self._preconditioner._{h}, int(old(self._preconditioner._{h}) * self._{h}_lambda({K})) '
         f'if self._{h}_lambda is not None else old(self._preconditioner._{h}))')
        for h in ('factor_update_steps', 'inv_update_steps')
    ] + [
        (f'{h}_scaled',
         f'same(self._preconditioner._{h}, old(self._preconditioner._{h}) * self._{h}_lambda({K}) '
         f'if self._{h}_lambda is not None else old(self._preconditioner._{h}))')
        for h in ('damping', 'factor_decay', 'kl_clip', 'lr')
    ],
    modifies=[f'self._preconditioner._{h}' for h in HYPERS],
    float_mode='U',
)
