"""KFACBaseLayer (kfac/layers/base.py): C04 (factors), C01/C07/C10 (update_grad), C09 (state), C13 (memory), C03."""
from pyvc.contracts import contract, lemma, spec_def
from pyvc.values import KInt, KReal, KBool, KDyn, KFn, KStr, KDict, KList, KRef, KTuple
from pyvc.tensors import KShape, KDType, KDevice

T = KRef('Tensor')
G = KRef('ProcessGroup')
ANY = KRef(None)
L = 'kfac.layers.base:KFACBaseLayer'

# ---- interface contracts of the module helper used by the layer (abstract methods)
contract('kfac.layers.modules:ModuleHelper.get_a_factor', props=['C04'], params={'a': T}, result=T, trusted=True,
         requires=[('a_present', 'a is not None')],
         ensures=[('present', 'result is not None'), ('fresh', 'fresh_storage(result)'), ('square', 'is_square(result.shape)'),
                  ('function_of_input', 'val(result) == helper_a_factor(self, old(val(a)), old(a.shape))'),
                  ('dtype_follows_input', 'result.dtype is a.dtype and result.device is a.device'),
                  ('input_untouched', 'val(a) == old(val(a))')],
         modifies=['ghost:next_sid'],
         note='interface: helper_a_factor(h, v, shape) names the value the concrete helper computes (proved per helper in c15_modules)')
contract('kfac.layers.modules:ModuleHelper.get_g_factor', props=['C04'], params={'g': T}, result=T, trusted=True,
         requires=[('g_present', 'g is not None')],
         ensures=[('present', 'result is not None'), ('fresh', 'fresh_storage(result)'), ('square', 'is_square(result.shape)'),
                  ('function_of_input', 'val(result) == helper_g_factor(self, old(val(g)), old(g.shape))'),
                  ('dtype_follows_input', 'result.dtype is g.dtype and result.device is g.device'),
                  ('input_untouched', 'val(g) == old(val(g))')],
         modifies=['ghost:next_sid'])
contract('kfac.layers.modules:ModuleHelper.device', props=['C09'], result=KDevice, trusted=True,
         ensures=[('a_device', 'result is not None')], modifies=[])

STATE0 = ('self._a_batch is None and self._g_batch is None and self._a_count == 0 and self._g_count == 0 '
          'and self._a_factor is None and self._g_factor is None and self._grad is None')
contract(
    f'{L}.__init__', props=['C04', 'C05', 'C13'],
    params={'module': KRef('ModuleHelper'), 'tdc': KRef('TorchDistributedCommunicator'),
            'allreduce_method': KRef('AllreduceMethod'), 'factor_dtype': KDType, 'grad_scaler': KDyn,
            'inv_dtype': KDType, 'symmetry_aware': KBool},
    requires=[('module_present', 'module is not None and module.module is not None'),
              ('scaler_is_callable_or_none', 'grad_scaler is None or callable(grad_scaler)')],
    ensures=[('config', 'self.module is module and self.tdc is tdc and self.allreduce_method is allreduce_method '
                        'and self.factor_dtype is factor_dtype and same(self.grad_scaler, grad_scaler) '
                        'and self.inv_dtype is inv_dtype and self.symmetry_aware == symmetry_aware and self.symmetric_factors'),
             ('initial_state_empty', STATE0)],
    modifies=['self.module', 'self.tdc', 'self.allreduce_method', 'self.factor_dtype', 'self.grad_scaler', 'self.inv_dtype',
              'self.symmetry_aware', 'self.eps', 'self.symmetric_factors', 'self._a_batch', 'self._g_batch', 'self._a_count',
              'self._g_count', 'self._a_factor', 'self._g_factor', 'self._grad'],
)

contract(f'{L}.reset_batch', props=['C04', 'C05'],
         ensures=[('buffers_cleared', 'self._a_batch is None and self._g_batch is None and self._a_count == 0 and self._g_count == 0')],
         modifies=['self._a_batch', 'self._a_count', 'self._g_batch', 'self._g_count'])

# ---- accumulation of micro-batch statistics (C04)
for X, x, arg, argk, helper in (('a', 'a', 'input_', KList(T), 'helper_a_factor'), ('g', 'g', 'grad_output', KList(T), 'helper_g_factor')):
    pass

contract(
    f'{L}.save_layer_input', props=['C04', 'C10'],
    params={'input_': KList(T)},
    requires=[('input_present', 'len(input_) >= 1 and input_[0] is not None'), ('module_present', 'self.module is not None'),
              ('batch_is_own_tensor', 'self._a_batch is not input_[0]')],
    ensures=[
        ('accumulates', 'self._a_batch is not None and val(self._a_batch) == '
                        '(helper_a_factor(self.module, old(val(input_[0])), old(input_[0].shape)) if old(self._a_batch) is None else '
                        'add(old(val(self._a_batch)), helper_a_factor(self.module, old(val(input_[0])), old(input_[0].shape))))'),
        ('counts', 'self._a_count == (1 if old(self._a_batch) is None else old(self._a_count) + 1)'),
        ('stays_square', 'implies(old(self._a_batch) is None or is_square(old(self._a_batch.shape)), is_square(self._a_batch.shape))'),
        ('input_untouched', 'val(input_[0]) == old(val(input_[0])) and input_[0].shape == old(input_[0].shape)'),
        ('stored_in_factor_dtype', 'implies(self.factor_dtype is not None and old(self._a_batch) is None, self._a_batch.dtype is self.factor_dtype)'),
    ],
    modifies=['self._a_batch', 'self._a_count', 'ghost:next_sid'],
)
contract(
    f'{L}.save_layer_grad_output', props=['C04', 'C10'],
    params={'grad_output': KList(T)},
    requires=[('grad_present', 'len(grad_output) >= 1 and grad_output[0] is not None'), ('module_present', 'self.module is not None'),
              ('scaler_type', 'self.grad_scaler is None or callable(self.grad_scaler)'),
              ('scale_is_number', 'implies(self.grad_scaler is not None, isinstance(self.grad_scaler(), (int, float)))')],
    lets={'scaled': '(sdiv(old(val(grad_output[0])), self.grad_scaler()) if self.grad_scaler is not None else old(val(grad_output[0])))'},
    ensures=[
        ('accumulates_unscaled_gradient',
         'self._g_batch is not None and val(self._g_batch) == '
         '(helper_g_factor(self.module, scaled, old(grad_output[0].shape)) if old(self._g_batch) is None else '
         'add(old(val(self._g_batch)), helper_g_factor(self.module, scaled, old(grad_output[0].shape))))'),
        ('counts', 'self._g_count == (1 if old(self._g_batch) is None else old(self._g_count) + 1)'),
        ('stays_square', 'implies(old(self._g_batch) is None or is_square(old(self._g_batch.shape)), is_square(self._g_batch.shape))'),
        ('grad_output_untouched', 'val(grad_output[0]) == old(val(grad_output[0]))'),
    ],
    modifies=['self._g_batch', 'self._g_count', 'ghost:next_sid'],
)

# ---- running average (C04): A' = alpha * (A or I) + (1 - alpha) * mean of the accumulated micro-batches
for X in ('a', 'g'):
    contract(
        f'{L}.update_{X}_factor', props=['C04', 'C05', 'C09', 'C03'],
        params={'alpha': KDyn},
        requires=[('alpha_is_number', 'isinstance(alpha, (int, float)) and not isinstance(alpha, bool)'),
                  ('batch_square', f'implies(self._{X}_batch is not None, is_square(self._{X}_batch.shape))')],
        lets={'M': f'(smul(1 / old(self._{X}_count), old(val(self._{X}_batch))) if old(self._{X}_count) > 1 else old(val(self._{X}_batch)))',
              'prev': f'(diag(full([old(self._{X}_batch.shape[0])], 1.0)) if old(self._{X}_factor) is None else old(val(awaited(self._{X}_factor))))'},
        ensures=[
            ('no_batch_no_change', f'implies(old(self._{X}_batch) is None, self._{X}_factor is old(self._{X}_factor))'),
            ('decayed_running_average', f'implies(old(self._{X}_batch) is not None, is_tensor(self._{X}_factor) and '
                                        f'val(self._{X}_factor) == add(smul(alpha, prev), smul(1 - alpha, M)))'),
            ('batch_consumed', f'self._{X}_batch is None'),
            ('factor_stays_square', f'implies(old(self._{X}_batch) is not None and '
                                    f'(old(self._{X}_factor) is None or is_square(old(awaited(self._{X}_factor).shape))), is_square(self._{X}_factor.shape))'),
            ('count_kept', f'self._{X}_count == old(self._{X}_count)'),
            ('first_factor_has_batch_dtype', f'implies(old(self._{X}_batch) is not None and old(self._{X}_factor) is None, '
                                             f'self._{X}_factor.dtype is old(self._{X}_batch.dtype))'),
            ('same_dtype_is_kept', f'implies(old(self._{X}_batch) is not None and old(self._{X}_factor) is not None and '
                                   f'old(awaited(self._{X}_factor).dtype) is old(self._{X}_batch.dtype), self._{X}_factor.dtype is old(self._{X}_batch.dtype))'),
        ],
        modifies=[f'self._{X}_batch', f'self._{X}_factor', '*.resolved', 'ghost:next_sid'],
    )

# ---- communication of factors (C04 world mean, C03 groups, C13 symmetric payload)
for X in ('a', 'g'):
    contract(
        f'{L}.reduce_{X}_factor', props=['C04', 'C03', 'C13', 'C02'],
        params={'group': G},
        requires=[('member_of_group', 'in_group(group)'), ('tdc_present', 'self.tdc is not None'),
                  ('communicator_invariant', 'tdc_inv(self.tdc) and isinstance(self.tdc._bucket_cap_mb, (int, float))'),
                  ('factor_square', f'implies(self._{X}_factor is not None, is_square(awaited(self._{X}_factor).shape))'),
                  ('known_method', 'self.allreduce_method is AllreduceMethod.ALLREDUCE or self.allreduce_method is AllreduceMethod.ALLREDUCE_BUCKETED')],
        raises=[('RuntimeError', f'self._{X}_factor is None')],
        ensures=[
            ('alone_unchanged', f'implies(group_size(group) == 1, val(awaited(self._{X}_factor)) == old(val(awaited(self._{X}_factor))))'),
            ('world_mean', f'implies(group_size(group) != 1, val(awaited(self._{X}_factor)) == '
                           f'reduced(old(val(awaited(self._{X}_factor))), old(awaited(self._{X}_factor).shape), group, True, '
                           f'self.symmetric_factors and self.symmetry_aware, uninit(awaited(self._{X}_factor).sid)))'),
            ('same_shape_dtype', f'awaited(self._{X}_factor).shape == old(awaited(self._{X}_factor).shape) and '
                                 f'awaited(self._{X}_factor).dtype is old(awaited(self._{X}_factor).dtype)'),
            ('nothing_sent_alone', 'implies(group_size(group) == 1, trace() == old(trace()))'),
            ('result_is_a_pending_reduction', f'implies(group_size(group) != 1, is_future(self._{X}_factor))'),
            ('communicator_invariant', 'tdc_inv(self.tdc)'),
        ],
        modifies=[f'self._{X}_factor', '*.resolved', '*.val', 'self.tdc._allreduce_buckets', '*._tensors', '*._futures', '*._size',
                  '*._communicated', 'ghost:trace', 'ghost:next_sid'],
    )

# ---- the combined gradient is written back scaled (C01, C07, C10)
GRADS = [('module_present', 'self.module is not None and self.module.module is not None and self.module.module.weight is not None'),
         ('distinct_parameters', 'self.module.module.bias is not self.module.module.weight'),
         ('weight_grad_present', 'self.module.module.weight.grad is not None'),
         ('bias_grad_present', 'implies(self.module.module.bias is not None, self.module.module.bias.grad is not None)')]
# `x is None or a Tensor or a Future with a non-null value` is the declared type invariant of these fields
# (contracts/classes.py, checked at every store); nothing to require
PENDING = lambda f: []      # noqa: E731
MW, MB = 'self.module.module.weight', 'self.module.module.bias'
contract(
    f'{L}.update_grad', props=['C01', 'C07', 'C10'],
    params={'scale': KDyn},
    requires=GRADS + PENDING('_grad') + [
        ('scale_type', 'scale is None or (isinstance(scale, float))'),
        ('grad_2d', 'implies(self._grad is not None, len(awaited(self._grad).shape) == 2)')],
    raises=[('RuntimeError', 'self._grad is None')],
    lets={'V': 'old(val(awaited(self._grad)))', 'Vs': '(smul(scale, V) if scale is not None else V)',
          'sh': 'old(awaited(self._grad).shape)'},
    ensures=[
        ('weight_is_scaled_block', f'val({MW}.grad) == (view(lcols(Vs), [sh[0], sh[1] - 1], old({MW}.grad.shape)) '
                                   f'if {MB} is not None else view(Vs, sh, old({MW}.grad.shape)))'),
        ('bias_is_scaled_last_column', f'implies({MB} is not None, val({MB}.grad) == view(lastcol(Vs), [sh[0], 1], old({MB}.grad.shape)))'),
        ('gradient_metadata_kept', f'{MW}.grad.shape == old({MW}.grad.shape) and {MW}.grad.contig and '
                                   f'implies({MB} is not None, {MB}.grad.shape == old({MB}.grad.shape) and {MB}.grad.contig)'),
        ('consumed', 'self._grad is None'),
        ('gradients_still_present', f'{MW}.grad is not None and implies({MB} is not None, {MB}.grad is not None)'),
        ('new_gradient_objects', f'is_fresh({MW}.grad) and implies({MB} is not None, is_fresh({MB}.grad))'),
        ('raw_gradient_storage_untouched', f'val(old({MW}.grad)) == old(val({MW}.grad))'),
    ],
    modifies=['self._grad', f'{MW}.grad', f'{MB}.grad', '*.resolved', 'ghost:next_sid'],
)

contract(
    f'{L}.broadcast_grad', props=['C02', 'C03', 'C13', 'C07', 'C10'],
    params={'src': KInt, 'group': G},
    requires=GRADS + PENDING('_grad') + [('member_of_group', 'in_group(group)'), ('root_is_member', 'rank_in_group(src, group)'),
                                         ('tdc_present', 'self.tdc is not None'),
                                         ('grad_2d', 'implies(self._grad is not None, len(awaited(self._grad).shape) == 2)'),
                                         ('preconditioned_gradient_is_its_own_tensor',
                                          f'implies(self._grad is not None, awaited(self._grad) is not {MW}.grad and '
                                          f'implies({MB} is not None, awaited(self._grad) is not {MB}.grad))')],
    raises=[('RuntimeError', 'self._grad is None and my_rank() == src')],
    ensures=[
        ('has_gradient', 'self._grad is not None'),
        ('still_2d_and_its_own_tensor', f'len(awaited(self._grad).shape) == 2 and awaited(self._grad) is not {MW}.grad and '
                                        f'implies({MB} is not None, awaited(self._grad) is not {MB}.grad)'),
        ('root_keeps_value', 'implies(my_rank() == src, val(awaited(self._grad)) == old(val(awaited(self._grad))))'),
        ('alone_nothing_sent', 'implies(group_size(group) == 1, trace() == old(trace()))'),
        ('one_broadcast_otherwise', 'implies(group_size(group) != 1, len(trace()) == len(old(trace())) + 1)'),
        # the raw gradient D must still be readable when the clip factor is computed (C07) / a step only
        # rebinds gradients (C10): the receive buffer is never a module gradient
        ('raw_gradients_untouched', f'val({MW}.grad) == old(val({MW}.grad)) and implies({MB} is not None, val({MB}.grad) == old(val({MB}.grad)))'),
    ],
    modifies=['self._grad', '*.resolved', '*.val', 'ghost:trace', 'ghost:next_sid'],
)

# ---- state (C09) and memory (C13)
contract(
    f'{L}.state_dict', props=['C09', 'C18'], result=KDict(KStr, T),
    requires=PENDING('_a_factor') + PENDING('_g_factor'),
    ensures=[('two_entries', "len(result) == 2 and 'A' in result and 'G' in result"),
             ('factors_as_held', "result['A'] is old(awaited(self._a_factor)) and result['G'] is old(awaited(self._g_factor))"),
             ('values_untouched', "implies(result['A'] is not None, val(result['A']) == old(val(awaited(self._a_factor))))"),
             ('factors_kept', 'awaited(self._a_factor) is old(awaited(self._a_factor)) and awaited(self._g_factor) is old(awaited(self._g_factor))')],
    modifies=['self._a_factor', 'self._g_factor', '*.resolved'],
)
contract(
    f'{L}.load_state_dict', props=['C09', 'C18'],
    params={'state_dict': KDict(KStr, T)},
    requires=[('module_present', 'self.module is not None')],
    raises=[('KeyError', "'A' not in state_dict or 'G' not in state_dict")],
    ensures=[
        ('A_restored', "implies(state_dict['A'] is not None, is_tensor(self._a_factor) and val(self._a_factor) == old(val(state_dict['A'])) "
                       "and self._a_factor.shape == state_dict['A'].shape and self._a_factor.dtype is state_dict['A'].dtype)"),
        ('G_restored', "implies(state_dict['G'] is not None, is_tensor(self._g_factor) and val(self._g_factor) == old(val(state_dict['G'])) "
                       "and self._g_factor.shape == state_dict['G'].shape and self._g_factor.dtype is state_dict['G'].dtype)"),
        ('shapes_from_state', "implies(state_dict['A'] is not None, self._a_factor.shape == state_dict['A'].shape) and "
                              "implies(state_dict['G'] is not None, self._g_factor.shape == state_dict['G'].shape)"),
        ('absent_entries_keep_the_factor', "implies(state_dict['A'] is None, self._a_factor is old(self._a_factor)) and "
                                           "implies(state_dict['G'] is None, self._g_factor is old(self._g_factor))"),
    ],
    modifies=['self._a_factor', 'self._g_factor', 'ghost:next_sid'],
)
contract(
    f'{L}.memory_usage', props=['C13'], result=KDict(KStr, KInt),
    requires=PENDING('_a_factor') + PENDING('_g_factor'),
    ensures=[('four_entries', "len(result) == 4 and key_at(result, 0) == 'a_factors' and key_at(result, 1) == 'g_factors' "
                              "and key_at(result, 2) == 'a_batch' and key_at(result, 3) == 'g_batch'"),
             ('bytes_actually_held', "result['a_factors'] == bytes_of(old(awaited(self._a_factor))) and "
                                     "result['g_factors'] == bytes_of(old(awaited(self._g_factor))) and "
                                     "result['a_batch'] == bytes_of(self._a_batch) and result['g_batch'] == bytes_of(self._g_batch)"),
             ('tensors_kept', 'awaited(self._a_factor) is old(awaited(self._a_factor)) and awaited(self._g_factor) is old(awaited(self._g_factor))')],
    modifies=['self._a_factor', 'self._g_factor', '*.resolved'], theories=['opaque_nonlinear'],
    fresh_result=True,      # a dict literal built by the call (its own body is checked against this contract)
)
