"""BaseKFACPreconditioner.step / hooks / state (kfac/base_preconditioner.py): C05, C03, C10, C13, C07, C09.

step() is verified once per concrete layer class (class_map): the layer calls are then checked against
the concrete contracts of KFACInverseLayer / KFACEigenLayer."""
from pyvc.contracts import contract, lemma, spec_def
from pyvc.values import KInt, KReal, KBool, KDyn, KFn, KStr, KDict, KList, KRef, KTuple

P = 'kfac.base_preconditioner:BaseKFACPreconditioner'
NUMBER = lambda e: f'(isinstance({e}, (int, float)) and not isinstance({e}, bool))'    # noqa: E731

# immutable wiring of a layer (never assigned after construction: the arrays holding these fields are not
# touched by step(), so the requires clause below remains available at every program point)
CONFIG = (
    'l is not None and l.module is not None and l.module.module is not None and l.module.module.weight is not None '
    'and l.module.module.bias is not l.module.module.weight '
    'and l.tdc is not None and l.symmetric_factors '
    'and (l.allreduce_method is AllreduceMethod.ALLREDUCE or l.allreduce_method is AllreduceMethod.ALLREDUCE_BUCKETED)')
spec_def('layer_config_ok', ['l'], CONFIG)
# mutable part: presence of the module gradients and shapes of what the layer currently holds
L_ = 'self._layers[m][1]'
def over_layers(body):      # noqa: E302
    return 'all(' + body.replace('l.', L_ + '.') + ' for m in self._layers)'


MUT_COMMON = [
    ('module_gradients_present', 'l.module.module.weight.grad is not None and implies(l.module.module.bias is not None, l.module.module.bias.grad is not None)'),
    ('batch_shapes', 'implies(l._a_batch is not None, is_square(l._a_batch.shape)) and implies(l._g_batch is not None, is_square(l._g_batch.shape))'),
    ('factor_shapes', 'implies(l._a_factor is not None, is_square(awaited(l._a_factor).shape)) and implies(l._g_factor is not None, is_square(awaited(l._g_factor).shape))'),
    ('preconditioned_gradient_shape', 'implies(l._grad is not None, len(awaited(l._grad).shape) == 2 and awaited(l._grad) is not l.module.module.weight.grad '
                                      'and implies(l.module.module.bias is not None, awaited(l._grad) is not l.module.module.bias.grad))'),
]
MUT_VARIANT = {
    'inverse': [('inverse_shapes', 'implies(l._a_inv is not None, is_square(awaited(l._a_inv).shape)) and implies(l._g_inv is not None, is_square(awaited(l._g_inv).shape))')],
    'eigen': [('eigenvalue_shapes', 'implies(l._da is not None, len(awaited(l._da).shape) == 1)')],
}

# provenance of the second-order data (ghost fields written by compute_a_inv / compute_g_inv)
def refreshed(lyr, name, damp, guard=True):      # noqa: E302
    out = []
    for X, F in (('a', 'A'), ('g', 'G')):
        body = f'{lyr}.gh_{X}_from is awaited({lyr}._{X}_factor) and same({lyr}.gh_{X}_damping, {damp})'
        out.append(f"implies(wa_inv_worker(self._assignment, {name}, '{F}') == my_rank(), {body})" if guard else f'({body})')
    return ' and '.join(out)


def provenance_kept(lyr):
    return ' and '.join(f'{lyr}.gh_{X}_from is old({lyr}.gh_{X}_from) and same({lyr}.gh_{X}_damping, old({lyr}.gh_{X}_damping))' for X in 'ag')


SO_FIELDS = {'inverse': ['_a_inv', '_g_inv'], 'eigen': ['_qa', '_qg', '_da', '_dg', '_dgda']}


def so_identity_kept(lyr, variant):
    return ' and '.join(f'awaited({lyr}.{f}) is old(awaited({lyr}.{f}))' for f in SO_FIELDS[variant])


def factors_identity_kept(lyr):
    return f'awaited({lyr}._a_factor) is old(awaited({lyr}._a_factor)) and awaited({lyr}._g_factor) is old(awaited({lyr}._g_factor))'


INV_STEP = 'old(self._steps) % old(self.inv_update_steps) == 0'
FAC_STEP = '(not old(self._update_factors_in_hook) and old(self._steps) % old(self.factor_update_steps) == 0)'
TDC_OK = 'tdc_inv(self._tdc) and isinstance(self._tdc._bucket_cap_mb, (int, float))'
SELF_OK = [('assignment_present', 'self._assignment is not None and self._tdc is not None'),
           ('communicator_invariant', TDC_OK),
           ('layers_share_the_communicator', 'all(self._layers[m][1].tdc is self._tdc for m in self._layers)'),
           ('hyperparameters_are_numbers',
            f'{NUMBER("self.damping")} and {NUMBER("self.factor_decay")} and {NUMBER("self.lr")} and '
            f'(self.kl_clip is None or ({NUMBER("self.kl_clip")} and self.kl_clip > 0)) and '
            'isinstance(self.factor_update_steps, int) and self.factor_update_steps > 0 and '
            'isinstance(self.inv_update_steps, int) and self.inv_update_steps > 0')]

for variant, cls in (('inverse', 'KFACInverseLayer'), ('eigen', 'KFACEigenLayer')):
    CONFIG_OK = 'all(layer_config_ok(self._layers[m][1]) and wa_layer_ok(self._assignment, self._layers[m][0]) for m in self._layers)'
    MUTS = [(lbl, over_layers(body)) for lbl, body in MUT_COMMON + MUT_VARIANT[variant]]
    STABLE = ('self._layers == old(self._layers) and self._assignment is old(self._assignment) and self._tdc is old(self._tdc) '
              'and self._steps == old(self._steps) and self._update_factors_in_hook == old(self._update_factors_in_hook) '
              'and same(self._damping, old(self._damping)) and same(self._factor_decay, old(self._factor_decay)) '
              'and same(self._kl_clip, old(self._kl_clip)) and same(self._lr, old(self._lr)) '
              'and same(self._factor_update_steps, old(self._factor_update_steps)) and same(self._inv_update_steps, old(self._inv_update_steps))')
    INV = MUTS + [('own_state_stable', STABLE), ('communicator_invariant', 'tdc_inv(self._tdc)')]
    INV3 = [(lbl, over_layers(body) if lbl != 'preconditioned_gradient_shape' else
             over_layers('implies(l._grad is not None, len(awaited(l._grad).shape) == 2)'))
            for lbl, body in MUT_COMMON + MUT_VARIANT[variant]] + [('own_state_stable', STABLE)]
    PRE = [('this_layer', 'layer is flayer(self, len(self._layers) - 1 - i)'),

           ('this_layer_configured', 'layer_config_ok(layer)'),
           ('this_layer_gradients', MUT_COMMON[0][1].replace('l.', 'layer.'))]
    HINT2 = [('this_layer_preconditioned_with_the_current_damping',
              'implies(wa_is_grad_worker(self._assignment, name), same(layer.gh_pg_damping, D0))'),
             ('earlier_ones_keep_theirs', "all(implies(wa_is_grad_worker(self._assignment, fname(self, m)), same(flayer(self, m).gh_pg_damping, D0)) "
                                          "for m in range(len(self._layers) - i, len(self._layers)))")]
    HINT3 = [('this_layer', 'layer is flayer(self, len(self._layers) - 1 - i)'), ('this_layer_consumed', 'layer._grad is None'),
             ('earlier_ones_stay_consumed', 'all(flayer(self, m)._grad is None for m in range(len(self._layers) - i, len(self._layers)))')]
    KEPT_SO = ('second_order_identity_kept_off_schedule', f'implies(not ({INV_STEP}), all(' + so_identity_kept(L_, variant) + ' for m in self._layers))')
    REFR = ('refreshed_on_schedule', f'implies({INV_STEP}, all(' + refreshed(L_, 'self._layers[m][0]', 'D0') + ' for m in self._layers))')
    PGD = ('preconditioned_with_the_current_damping',
           f"all(implies(wa_is_grad_worker(self._assignment, self._layers[m][0]), same({L_}.gh_pg_damping, D0)) for m in self._layers)")
    KEPT_F = ('factors_kept_off_schedule', f'implies(not {FAC_STEP}, all(' + factors_identity_kept(L_) + ' for m in self._layers))')
    contract(
        f'{P}.step#{variant}', props=['C05', 'C03', 'C10', 'C13', 'C07', 'C01'],
        class_map={'KFACBaseLayer': cls}, theories=['opaque_nonlinear'],
        requires=SELF_OK + [('layers_configured', CONFIG_OK)] + MUTS,
        may_raise=['RuntimeError', 'AssertionError', 'NonSquareTensorError'],
        lets={'D0': 'old(self.damping)'},       # the damping evaluated at the step count on entry
        # C01: whoever preconditions does it with the damping evaluated at THIS step (the eigen method without
        # pre-divided eigenvalues applies the damping at this point, not at refresh time)
        call_demands={f'{cls}.preconditioned_grad': [('damping_of_this_step', 'same(damping, D0)')]},
        ensures=[
            ('step_count_grows_by_one', 'self._steps == old(self._steps) + 1'),
            ('accumulation_counters_reset', 'len(self._mini_steps) == 0'),
            ('hyperparameters_and_wiring_unchanged',
             'self._layers == old(self._layers) and self._assignment is old(self._assignment) and self._tdc is old(self._tdc) '
             'and same(self._damping, old(self._damping)) and same(self._factor_decay, old(self._factor_decay)) '
             'and same(self._kl_clip, old(self._kl_clip)) and same(self._lr, old(self._lr)) '
             'and same(self._factor_update_steps, old(self._factor_update_steps)) and same(self._inv_update_steps, old(self._inv_update_steps))'),
            ('preconditioned_gradients_consumed', 'all(self._layers[m][1]._grad is None for m in self._layers)'),
            # C05: second-order data is recomputed exactly on multiples of the inverse-update interval, from the
            # factors held at that moment and with the damping evaluated at the current step
            ('second_order_data_refreshed_on_schedule[ghost]',
             f'implies({INV_STEP}, all(' + refreshed(L_, 'self._layers[m][0]', 'D0') + ' for m in self._layers))'),
            ('second_order_data_kept_off_schedule[ghost]',
             f'implies(not ({INV_STEP}), all(' + provenance_kept(L_) + ' and ' + so_identity_kept(L_, variant) + ' for m in self._layers))'),
            ('factors_kept_off_schedule', f'implies(not {FAC_STEP}, all(' + factors_identity_kept(L_) + ' for m in self._layers))'),
            # every bucketed reduction started in the hooks or in this step has been issued (C03: no rank waits forever)
            ('no_reduction_left_pending', 'nothing_pending(self._tdc)'),
            ('communicator_invariant', 'tdc_inv(self._tdc)'),
        ],
        loops={f'iter:reversed(list(self._layers.values()))#{i}': dict(index='i', hints=(HINT3 if i == 3 else []), pre_hints=(PRE + [('this_name', 'name == fname(self, len(self._layers) - 1 - i)')] if i < 3 else PRE), invariants=(INV if i < 3 else INV3) + extra) for i, extra in enumerate([
            [],
            [('refreshed_so_far', 'all(' + refreshed('flayer(self, m)', 'fname(self, m)', 'D0') +
              ' for m in range(len(self._layers) - i, len(self._layers)))'), KEPT_F],
            [KEPT_SO, KEPT_F, REFR],
            [REFR, ('consumed_so_far', 'all(flayer(self, m)._grad is None for m in range(len(self._layers) - i, len(self._layers)))'), KEPT_SO, KEPT_F],
        ])},
        modifies=['self._steps', 'self._mini_steps', '*._a_factor', '*._g_factor', '*._a_batch', '*._g_batch', '*._grad',
                  '*._a_inv', '*._g_inv', '*._qa', '*._qg', '*._da', '*._dg', '*._dgda', '*.grad', '*.val', '*.resolved',
                  '*._allreduce_buckets', '*._tensors', '*._futures', '*._size', '*._communicated', 'ghost:trace', 'ghost:next_sid',
                  '*.gh_a_from', '*.gh_g_from', '*.gh_a_damping', '*.gh_g_damping', '*.gh_pg_damping'],
    )


# ------------------------------------------------------------------ hooks, reset, memory, checkpoints
for variant, cls in (('inverse', 'KFACInverseLayer'), ('eigen', 'KFACEigenLayer')):
    CONFIG_OK = 'all(layer_config_ok(self._layers[m][1]) and wa_layer_ok(self._assignment, self._layers[m][0]) for m in self._layers)'
    contract(
        f'{P}.reset_batch#{variant}', props=['C04', 'C05'], class_map={'KFACBaseLayer': cls}, theories=['opaque_nonlinear'],
        requires=[('layers_present', 'all(self._layers[m][1] is not None for m in self._layers)')],
        ensures=[('all_buffers_cleared', 'all(self._layers[m][1]._a_batch is None and self._layers[m][1]._g_batch is None and '
                                         'self._layers[m][1]._a_count == 0 and self._layers[m][1]._g_count == 0 for m in self._layers)'),
                 ('step_counter_kept', 'self._steps == old(self._steps)')],
        loops={'iter:self._layers.values()': dict(index='i', invariants=[
            ('cleared_prefix', 'all(flayer(self, m)._a_batch is None and flayer(self, m)._g_batch is None and '
                               'flayer(self, m)._a_count == 0 and flayer(self, m)._g_count == 0 for m in range(i))'),
            ('own_state_stable', 'self._layers == old(self._layers) and self._steps == old(self._steps)')])},
        modifies=['*._a_batch', '*._a_count', '*._g_batch', '*._g_count'],
    )

HOOK_LAYER = 'self._layers[module][1]'
HOOK_NAME = 'self._layers[module][0]'
for variant, cls in (('inverse', 'KFACInverseLayer'), ('eigen', 'KFACEigenLayer')):
    for hook, X, arg, argk in (('_save_input', 'a', 'input_', KList(KRef('Tensor'))), ('_save_grad_output', 'g', 'grad_output', KList(KRef('Tensor')))):
        params = {'module': KRef('Module'), arg: argk}
        if hook == '_save_grad_output':
            params['grad_input'] = KList(KRef('Tensor'))
        UNCHANGED = (f'{HOOK_LAYER}._{X}_batch is old({HOOK_LAYER}._{X}_batch) and {HOOK_LAYER}._{X}_count == old({HOOK_LAYER}._{X}_count) '
                     f'and {HOOK_LAYER}._{X}_factor is old({HOOK_LAYER}._{X}_factor) and trace() == old(trace()) '
                     f'and self._mini_steps == old(self._mini_steps)')
        contract(
            f'{P}.{hook}#{variant}', props=['C04', 'C05', 'C10', 'C03'], class_map={'KFACBaseLayer': cls}, theories=['opaque_nonlinear'],
            params=params, result=None,
            requires=[('registered_module', 'module is not None and module in self._layers'),
                      ('layer_configured', f'layer_config_ok({HOOK_LAYER}) and wa_layer_ok(self._assignment, {HOOK_NAME})'),
                      ('pass_data_present', f'len({arg}) >= 1 and {arg}[0] is not None and {HOOK_LAYER}._{X}_batch is not {arg}[0]'),
                      ('shapes', f'implies({HOOK_LAYER}._{X}_factor is not None, is_square(awaited({HOOK_LAYER}._{X}_factor).shape)) and '
                                 f'implies({HOOK_LAYER}._{X}_batch is not None, is_square({HOOK_LAYER}._{X}_batch.shape))'),
                      ('helper_factors_are_square', 'True'),
                      ('scaler', f'{HOOK_LAYER}.grad_scaler is None or (callable({HOOK_LAYER}.grad_scaler) and '
                                 f'isinstance({HOOK_LAYER}.grad_scaler(), (int, float)))'),
                      ('communicator_invariant', f'tdc_inv({HOOK_LAYER}.tdc) and isinstance({HOOK_LAYER}.tdc._bucket_cap_mb, (int, float))'),
                      ('settings', f'self._assignment is not None and self._accumulation_steps > 0 and {NUMBER("self.factor_decay")} and '
                                   'isinstance(self.factor_update_steps, int) and self.factor_update_steps > 0')],
            may_raise=['RuntimeError', 'NonSquareTensorError'],
            ensures=[
                ('eval_mode_is_a_no_op', f'implies(not module.training, {UNCHANGED})'),
                ('only_on_factor_update_steps', f'implies(self._steps % self.factor_update_steps != 0, {UNCHANGED})'),
                ('step_counter_untouched', 'self._steps == old(self._steps)'),
                ('communicator_invariant', f'tdc_inv({HOOK_LAYER}.tdc)'),
                # C03: whether the factor reduction is issued depends only on rank-invariant data (mode, step count,
                # accumulation counter) -- never on the local batch
                ('reduction_issued_whenever_the_schedule_says_so',
                 f'implies(module.training and self._steps % self.factor_update_steps == 0 and self._update_factors_in_hook and '
                 + (f'((old(self._mini_steps)[{HOOK_NAME}] if {HOOK_NAME} in old(self._mini_steps) else 0) + 1) % self._accumulation_steps == 0'
                    if hook == '_save_input' else
                    f'(self._mini_steps[{HOOK_NAME}] if {HOOK_NAME} in self._mini_steps else 0) % self._accumulation_steps == 0')
                 + f" and group_size(wa_factor_group(self._assignment, {HOOK_NAME}, '{X.upper()}')) != 1, is_future({HOOK_LAYER}._{X}_factor))"),
            ] + ([('counts_the_forward_pass', f'implies(module.training and self._steps % self.factor_update_steps == 0, '
                                              f'self._mini_steps[{HOOK_NAME}] == (old(self._mini_steps)[{HOOK_NAME}] if {HOOK_NAME} in old(self._mini_steps) else 0) + 1)')]
                 if hook == '_save_input' else [('mini_step_counter_untouched', 'True')]),
            modifies=['self._mini_steps', f'{HOOK_LAYER}._{X}_batch', f'{HOOK_LAYER}._{X}_count', f'{HOOK_LAYER}._{X}_factor',
                      '*.resolved', '*.val', f'{HOOK_LAYER}.tdc._allreduce_buckets', '*._tensors', '*._futures', '*._size', '*._communicated',
                      'ghost:trace', 'ghost:next_sid'],
        )

# ------------------------------------------------------------------ checkpoints (C09)
from pyvc.values import KRecord   # noqa: E402
T_ = KRef('Tensor')
LAYER_STATE = KDict(KStr, T_)
STATE = KRecord({'steps': KInt, 'factor_update_steps': KDyn, 'inv_update_steps': KDyn, 'damping': KDyn,
                 'factor_decay': KDyn, 'kl_clip': KDyn, 'lr': KDyn, 'layers': KDict(KStr, LAYER_STATE)})
HYP = ['factor_update_steps', 'inv_update_steps', 'damping', 'factor_decay', 'kl_clip', 'lr']

for variant, cls in (('inverse', 'KFACInverseLayer'), ('eigen', 'KFACEigenLayer')):
    CONFIG_OK = 'all(layer_config_ok(self._layers[m][1]) and wa_layer_ok(self._assignment, self._layers[m][0]) for m in self._layers)'
    RESTORED = ("self._steps == state_dict['steps'] and self._layers == old(self._layers) and self._assignment is old(self._assignment) and "
                + ' and '.join(f"implies('{h}' in state_dict, same(self._{h}, state_dict['{h}'])) and "
                               f"implies(not ('{h}' in state_dict), same(self._{h}, old(self._{h})))" for h in HYP))
    SHAPES = [(lbl, over_layers(body)) for lbl, body in
              [('factor_shapes', 'implies(l._a_factor is not None, is_square(awaited(l._a_factor).shape)) and implies(l._g_factor is not None, is_square(awaited(l._g_factor).shape))')]
              + MUT_VARIANT[variant]]
    LINV = SHAPES
    contract(
        f'{P}.load_state_dict#{variant}', props=['C09', 'C03', 'C05', 'C01'], class_map={'KFACBaseLayer': cls}, theories=['opaque_nonlinear'],
        params={'state_dict': STATE, 'compute_inverses': KBool},
        requires=[('valid_state', "'steps' in state_dict and state_dict['steps'] >= 0"),
                  ('hyperparameters_in_state_are_numbers',
                   # kl_clip=None is a documented setting ("no scaling/clipping") and is saved as such
                   ' and '.join(f"implies('{h}' in state_dict, " + ("state_dict['kl_clip'] is None or " if h == 'kl_clip' else '')
                                + f"{NUMBER(chr(115) + 'tate_dict[' + repr(h) + ']')})" for h in HYP)),
                  ('layer_states_complete', "implies('layers' in state_dict, all('A' in state_dict['layers'][n] and 'G' in state_dict['layers'][n] "
                                            "and implies(state_dict['layers'][n]['A'] is not None, is_square(state_dict['layers'][n]['A'].shape)) "
                                            "and implies(state_dict['layers'][n]['G'] is not None, is_square(state_dict['layers'][n]['G'].shape)) "
                                            "for n in state_dict['layers']))"),
                  ('assignment_present', 'self._assignment is not None'),
                  ('layers_configured', CONFIG_OK)] + SHAPES + [
                  ('damping_usable', f'implies(not (\'damping\' in state_dict), callable(self._damping) or {NUMBER("self._damping")}) and '
                                     'implies(callable(self._damping) and not (\'damping\' in state_dict), ' + NUMBER("self._damping(state_dict[\'steps\'])") + ')')],
        raises=[('ValueError', "'layers' in state_dict and len(state_dict['layers']) != len(self._layers)")],
        ensures=[
            ('step_count_restored', "self._steps == state_dict['steps']"),
        ] + [(f'{h}_restored', f"implies('{h}' in state_dict, same(self._{h}, state_dict['{h}'])) and "
                               f"implies(not ('{h}' in state_dict), same(self._{h}, old(self._{h})))") for h in HYP] + [
            # C09: the second-order data is recomputed from the restored factors, with the damping evaluated
            # at the RESTORED step count (self.damping below is read in the post-state)
            ('second_order_data_recomputed_from_restored_state[ghost]',
             "implies(compute_inverses and 'layers' in state_dict, all(implies(" + L_ + "._a_factor is not None and " + L_ + "._g_factor is not None, "
             + refreshed(L_, 'self._layers[m][0]', 'self.damping', guard=False) + ") for m in self._layers))"),
            # the same statement on values, as an executable oracle (bounded stand-in when the function is
            # outside the generator's subset; single-process runs)
            ('second_order_data_matches_restored_factors[bounded]',
             "implies(compute_inverses and 'layers' in state_dict, all(second_order_consistent(" + L_ + ", self.damping) for m in self._layers))"),
        ],
        loops={"iter:state_dict['layers'].items()": dict(index='i', invariants=LINV),
               'iter:self._layers.values()#0': dict(index='j', invariants=LINV),
               'iter:self._layers.values()#1': dict(index='i', invariants=LINV + [
                   ('recomputed_so_far', 'all(implies(flayer(self, m)._a_factor is not None and flayer(self, m)._g_factor is not None, '
                                         + refreshed('flayer(self, m)', 'fname(self, m)', 'self.damping', guard=False) + ') for m in range(i))')])},
        modifies=['self._steps'] + [f'self._{h}' for h in HYP] + ['*._a_factor', '*._g_factor', '*._a_inv', '*._g_inv', '*._qa', '*._qg', '*._da',
                                                                   '*._dg', '*._dgda', '*.val', '*.resolved', 'ghost:trace', 'ghost:next_sid',
                                                                   '*.gh_a_from', '*.gh_g_from', '*.gh_a_damping', '*.gh_g_damping'],
    )


# ------------------------------------------------------------------ state_dict (C09: the save side)
LSTATE = KDict(KStr, KRef('Tensor'))
for variant, cls in (('inverse', 'KFACInverseLayer'), ('eigen', 'KFACEigenLayer')):
    SAVED = ("fname(self, m) in __comp0 and __comp0[fname(self, m)]['A'] is old(awaited(flayer(self, m)._a_factor)) "
             "and __comp0[fname(self, m)]['G'] is old(awaited(flayer(self, m)._g_factor))")
    contract(
        f'{P}.state_dict#{variant}', props=['C09', 'C03', 'C05'], class_map={'KFACBaseLayer': cls}, theories=['opaque_nonlinear'],
        params={'include_factors': KBool}, result=STATE, locals={'state_dict': STATE, '__comp0': KDict(KStr, LSTATE)},
        requires=[('layers_present', 'all(self._layers[m][1] is not None for m in self._layers)'),
                  ('layer_names_unique', 'all(fname(self, a) != fname(self, b) for a in range(len(self._layers)) for b in range(a))')],
        ensures=[
            ('step_count_saved', "'steps' in result and result['steps'] == self._steps"),
        ] + [(f'{h}_saved_unless_a_schedule', f"('{h}' in result) == (not callable(self._{h})) and "
                                              f"implies('{h}' in result, same(result['{h}'], self._{h}))") for h in HYP] + [
            ('factors_saved_iff_requested', "('layers' in result) == include_factors"),
            ('every_layer_saved_under_its_name',
             "implies(include_factors, len(result['layers']) == len(self._layers) and all("
             "fname(self, m) in result['layers'] and result['layers'][fname(self, m)]['A'] is old(awaited(flayer(self, m)._a_factor)) "
             "and result['layers'][fname(self, m)]['G'] is old(awaited(flayer(self, m)._g_factor)) for m in range(len(self._layers))))"),
            ('saving_does_not_communicate', 'trace() == old(trace())'),
            ('scalars_untouched', 'self._steps == old(self._steps) and self._layers == old(self._layers)'),
        ],
        loops={'iter:self._layers.values()': dict(index='i', invariants=[
            ('one_entry_per_layer_so_far', 'len(__comp0) == i and all(key_at(__comp0, m) == fname(self, m) for m in range(i))'),
            ('saved_so_far', 'all(' + SAVED + ' for m in range(i))'),
            ('factors_of_the_rest_untouched', 'all(awaited(flayer(self, m)._a_factor) is old(awaited(flayer(self, m)._a_factor)) and '
                                              'awaited(flayer(self, m)._g_factor) is old(awaited(flayer(self, m)._g_factor)) '
                                              'for m in range(len(self._layers)))'),
        ])},
        modifies=['*._a_factor', '*._g_factor', '*.resolved'],
    )


# ------------------------------------------------------------------ memory_usage, the accumulation over layers (C13), deductive part
spec_def('dget', ['d', 'k'], 'd[k] if k in d else 0')      # defaultdict(int) read
KEYS6 = ['a_factors', 'g_factors', 'a_batch', 'g_batch', 'a_inverses', 'g_inverses']
SO_BYTES = {'inverse': ("bytes_of(old(awaited(l._a_inv)))", "bytes_of(old(awaited(l._g_inv)))"),
            'eigen': ("bytes_of(old(awaited(l._qa))) + bytes_of(old(awaited(l._da)))",
                      "bytes_of(old(awaited(l._qg))) + bytes_of(old(awaited(l._dg))) + bytes_of(old(awaited(l._dgda)))")}
for variant, cls in (('inverse', 'KFACInverseLayer'), ('eigen', 'KFACEigenLayer')):
    TERM = {'a_factors': 'bytes_of(old(awaited(l._a_factor)))', 'g_factors': 'bytes_of(old(awaited(l._g_factor)))',
            'a_batch': 'bytes_of(old(l._a_batch))', 'g_batch': 'bytes_of(old(l._g_batch))',
            'a_inverses': SO_BYTES[variant][0], 'g_inverses': SO_BYTES[variant][1]}
    KEPT_M = ('tensors_and_batches_kept', 'all(' + ' and '.join(
        [f'awaited(flayer(self, m).{f}) is old(awaited(flayer(self, m).{f}))' for f in ['_a_factor', '_g_factor'] + SO_FIELDS[variant]]
        + [f'flayer(self, m).{f} is old(flayer(self, m).{f})' for f in ('_a_batch', '_g_batch')]) + ' for m in range(len(self._layers)))')
    STEP = ' and '.join(f"msum(self, '{k}', j + 1) == msum(self, '{k}', j) + " + TERM[k].replace('l.', 'flayer(self, j).') for k in KEYS6)
    contract(
        f'{P}.memory_usage#{variant}', props=['C13', 'C03'], class_map={'KFACBaseLayer': cls}, theories=['opaque_nonlinear'],
        result=KDict(KStr, KInt, default=0), locals={'sizes': KDict(KStr, KInt, default=0)},
        requires=[('communicator', 'self._tdc is not None and tdc_inv(self._tdc)'),
                  ('layers_present', 'all(self._layers[m][1] is not None for m in self._layers)')],
        definitions=[('msum_0', ' and '.join(f"msum(self, '{k}', 0) == 0" for k in KEYS6)), ('msum_step@j', STEP)],
        ensures=[('sum_over_layers_of_the_bytes_held[ghost]', ' and '.join(f"dget(result, '{k}') == msum(self, '{k}', len(self._layers))" for k in KEYS6)),
                 ('nothing_left_pending', 'nothing_pending(self._tdc)'),
                 ('reports_the_bytes_actually_held[bounded]', 'result == held_bytes_reference(self)'),
                 ('total_is_the_sum[bounded]', "result['total'] == sum(v for k, v in result.items() if k != 'total')")],
        loops={'iter:self._layers.values()': dict(index='i', unfold=['msum_step'], invariants=[
                   ('running_sums', ' and '.join(f"dget(sizes, '{k}') == msum(self, '{k}', i)" for k in KEYS6)),
                   ('layers_stable', 'self._layers == old(self._layers)'), KEPT_M],
                   hints=[('this_layer', 'layer is flayer(self, i)')] + [
                       (f'adds_{k}', f"dget(sizes, '{k}') == msum(self, '{k}', i) + layer_sizes['{k}']") for k in KEYS6] + [
                       (f'term_{k}', f"layer_sizes['{k}'] == " + TERM[k].replace('l.', 'flayer(self, i).')) for k in KEYS6]),
               'iter:layer_sizes.items()': dict(index='j', invariants=[KEPT_M,
                   ('partial_layer', 'all(dget(sizes, key_at(layer_sizes, m)) == msum(self, key_at(layer_sizes, m), i) + '
                                     '(layer_sizes[key_at(layer_sizes, m)] if m < j else 0) for m in range(len(layer_sizes)))'),
                   ('layers_stable', 'self._layers == old(self._layers)')])},
        modifies=['*._a_factor', '*._g_factor', '*._a_inv', '*._g_inv', '*._qa', '*._qg', '*._da', '*._dg', '*._dgda', '*.resolved', '*.val',
                  'self._tdc._allreduce_buckets', '*._tensors', '*._futures', '*._size', '*._communicated', 'ghost:trace', 'ghost:next_sid'],
    )
