"""BaseKFACPreconditioner.step / hooks / state (kfac/base_preconditioner.py): C05, C03, C10, C13, C07, C09.

step() is verified once per concrete layer class (class_map): the layer calls are then checked against
the concrete contracts of KFACInverseLayer / KFACEigenLayer."""
from pyvc.contracts import contract, lemma, spec_def
from pyvc.values import KInt, KReal, KBool, KDyn, KFn, KStr, KDict, KList, KRef, KTuple

P = 'kfac.base_preconditioner:BaseKFACPreconditioner'
NUMBER = lambda e: f'(isinstance({e}, (int, float)) and not isinstance({e}, bool))'    # noqa: E731

# immutable wiring of a layer (never assigned after construction: the arrays holding these fields are not
# touched by step(), so the requires clause below remains available at every program point)
CONFIG = (
    'l is not None and l.module is not None and l.module.module is not None and l.module.module.weight is not None '
    'and l.module.module.bias is not l.module.module.weight '
    'and l.tdc is not None and l.symmetric_factors '
    'and (l.allreduce_method is AllreduceMethod.ALLREDUCE or l.allreduce_method is AllreduceMethod.ALLREDUCE_BUCKETED)')
spec_def('layer_config_ok', ['l'], CONFIG)
# mutable part: presence of the module gradients and shapes of what the layer currently holds
L_ = 'self._layers[m][1]'
def over_layers(body):      # noqa: E302
    return 'all(' + body.replace('l.', L_ + '.') + ' for m in self._layers)'


MUT_COMMON = [
    ('module_gradients_present', 'l.module.module.weight.grad is not None and implies(l.module.module.bias is not None, l.module.module.bias.grad is not None)'),
    ('batch_shapes', 'implies(l._a_batch is not None, is_square(l._a_batch.shape)) and implies(l._g_batch is not None, is_square(l._g_batch.shape))'),
    ('factor_shapes', 'implies(l._a_factor is not None, is_square(awaited(l._a_factor).shape)) and implies(l._g_factor is not None, is_square(awaited(l._g_factor).shape))'),
    ('preconditioned_gradient_shape', 'implies(l._grad is not None, len(awaited(l._grad).shape) == 2 and awaited(l._grad) is not l.module.module.weight.grad '
                                      'and implies(l.module.module.bias is not None, awaited(l._grad) is not l.module.module.bias.grad))'),
]
MUT_VARIANT = {
    'inverse': [('inverse_shapes', 'implies(l._a_inv is not None, is_square(awaited(l._a_inv).shape)) and implies(l._g_inv is not None, is_square(awaited(l._g_inv).shape))')],
    'eigen': [('eigenvalue_shapes', 'implies(l._da is not None, len(awaited(l._da).shape) == 1)')],
}

SELF_OK = [('assignment_present', 'self._assignment is not None and self._tdc is not None'),
           ('hyperparameters_are_numbers',
            f'{NUMBER("self.damping")} and {NUMBER("self.factor_decay")} and {NUMBER("self.lr")} and '
            f'(self.kl_clip is None or ({NUMBER("self.kl_clip")} and self.kl_clip > 0)) and '
            'isinstance(self.factor_update_steps, int) and self.factor_update_steps > 0 and '
            'isinstance(self.inv_update_steps, int) and self.inv_update_steps > 0')]

for variant, cls in (('inverse', 'KFACInverseLayer'), ('eigen', 'KFACEigenLayer')):
    CONFIG_OK = 'all(layer_config_ok(self._layers[m][1]) and wa_layer_ok(self._assignment, self._layers[m][0]) for m in self._layers)'
    MUTS = [(lbl, over_layers(body)) for lbl, body in MUT_COMMON + MUT_VARIANT[variant]]
    STABLE = ('self._layers == old(self._layers) and self._assignment is old(self._assignment) and self._tdc is old(self._tdc) '
              'and self._steps == old(self._steps) and self._update_factors_in_hook == old(self._update_factors_in_hook) '
              'and same(self._damping, old(self._damping)) and same(self._factor_decay, old(self._factor_decay)) '
              'and same(self._kl_clip, old(self._kl_clip)) and same(self._lr, old(self._lr)) '
              'and same(self._factor_update_steps, old(self._factor_update_steps)) and same(self._inv_update_steps, old(self._inv_update_steps))')
    INV = MUTS + [('own_state_stable', STABLE)]
    INV3 = [(lbl, over_layers(body) if lbl != 'preconditioned_gradient_shape' else
             over_layers('implies(l._grad is not None, len(awaited(l._grad).shape) == 2)'))
            for lbl, body in MUT_COMMON + MUT_VARIANT[variant]] + [('own_state_stable', STABLE)]
    contract(
        f'{P}.step#{variant}', props=['C05', 'C03', 'C10', 'C13', 'C07'],
        class_map={'KFACBaseLayer': cls},
        requires=SELF_OK + [('layers_configured', CONFIG_OK)] + MUTS,
        may_raise=['RuntimeError', 'AssertionError', 'NonSquareTensorError'],
        ensures=[
            ('step_count_grows_by_one', 'self._steps == old(self._steps) + 1'),
            ('accumulation_counters_reset', 'len(self._mini_steps) == 0'),
            ('hyperparameters_and_wiring_unchanged',
             'self._layers == old(self._layers) and self._assignment is old(self._assignment) and self._tdc is old(self._tdc) '
             'and same(self._damping, old(self._damping)) and same(self._factor_decay, old(self._factor_decay)) '
             'and same(self._kl_clip, old(self._kl_clip)) and same(self._lr, old(self._lr)) '
             'and same(self._factor_update_steps, old(self._factor_update_steps)) and same(self._inv_update_steps, old(self._inv_update_steps))'),
            ('preconditioned_gradients_consumed', 'all(self._layers[m][1]._grad is None for m in self._layers)'),
        ],
        loops={str(i): dict(index='i', invariants=(INV if i < 3 else INV3) + extra) for i, extra in enumerate([
            [], [], [],
            [('consumed_so_far', 'all(flayer(self, m)._grad is None for m in range(len(self._layers) - i, len(self._layers)))')],
        ])},
        modifies=['self._steps', 'self._mini_steps', '*._a_factor', '*._g_factor', '*._a_batch', '*._g_batch', '*._grad',
                  '*._a_inv', '*._g_inv', '*._qa', '*._qg', '*._da', '*._dg', '*._dgda', '*.grad', '*.val', '*.resolved',
                  '*._allreduce_buckets', '*._tensors', '*._futures', '*._size', '*._communicated', 'ghost:trace', 'ghost:next_sid'],
    )
