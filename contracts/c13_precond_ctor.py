"""KFACPreconditioner.__init__ (kfac/preconditioner.py): the configuration logic that turns the user's choice into
a placement strategy (C13, C06), a layer class / communicator settings, the registered layers (C16) and the
assignment.  It strings together register_modules (**kwargs, a class passed as a value), enum look-ups by name and the
KAISA constructor -- all outside the VC generator's subset -- and is decided by the bounded run-time contract check
with 1-4 real processes against a reference written from the property statements (labelled bounded).
"""
from pyvc.contracts import contract
from pyvc.values import KDyn, KRef

contract(
    'kfac.preconditioner:KFACPreconditioner.__init__', props=['C13', 'C06', 'C16', 'C03'], mode='bounded',
    params={'model': KRef('Module')},
    # (a request for pre-divided eigenvalues without co-located factors is rejected only when compute_method is given
    # as an enum member -- the check runs before a string is normalised; no listed property speaks about it, so such
    # requests are outside this contract: observation O1 in DESIGN 13.5)
    requires=[('outer_product_request_is_consistent', 'not kfac_inconsistent_outer_product(__kwargs__)')],
    ensures=[('configuration_follows_the_request', 'kfac_config_reference(self, __kwargs__)')],
    raises=[('ValueError', 'kfac_ctor_must_reject(__kwargs__)')],
    modifies=['*'],
)
