"""TorchDistributedCommunicator and helpers (kfac/distributed.py): C08, C14, C03, C13."""
from pyvc.contracts import contract, lemma, spec_def
from pyvc.values import KInt, KReal, KBool, KDyn, KFn, KStr, KDict, KList, KRef, KTuple, KSetInt
from pyvc.tensors import KShape

T = KRef('Tensor')
G = KRef('ProcessGroup')
ANY = KRef(None)

# value an (un)bucketed allreduce of `v` (shape `sh`) resolves to -- ONE spec function shared by the
# contracts of allreduce() and allreduce_bucketed(), so their equivalence (C08) is a matter of both
# bodies meeting it
# ---- triangular packing as terms over the indexing operations of the code (C14)
# triu(v, sh): the elements of v at triu_indices(sh[0], sh[1]) in that order
spec_def('triu', ['v', 'sh'], 'gather2(v, row(triuidx(sh[0], sh[1], 0), 0), row(triuidx(sh[0], sh[1], 0), 1))')
# filltriu(sh, x, e): start from content e, write x at the upper-triangle positions, then copy the strict upper
# triangle through the transposed view
spec_def('put_upper', ['sh', 'x', 'e'], 'put2(e, row(triuidx(sh[0], sh[1], 0), 0), row(triuidx(sh[0], sh[1], 0), 1), x)')
spec_def('filltriu', ['sh', 'x', 'e'],
         'tr(put2(tr(put_upper(sh, x, e)), row(triuidx(sh[0], sh[0], 1), 0), row(triuidx(sh[0], sh[0], 1), 1), '
         'gather2(put_upper(sh, x, e), row(triuidx(sh[0], sh[0], 1), 0), row(triuidx(sh[0], sh[0], 1), 1))))')
# what the communicator does to the raw sum x of the (packed) tensor: average, then unpack into a buffer with
# initial content e
spec_def('post_reduce', ['x', 'sh', 'group', 'average', 'symmetric', 'e'],
         '(filltriu(sh, smul(1 / group_size(group), x), e) if average else filltriu(sh, x, e)) '
         'if symmetric else (smul(1 / group_size(group), x) if average else x)')
spec_def('reduced', ['v', 'sh', 'group', 'average', 'symmetric', 'e'],
         'post_reduce(allsum(triu(v, sh), group) if symmetric else allsum(v, group), sh, group, average, symmetric, e)')
# elements on the wire: the packed upper triangle (tri_numel(n, n) = n(n+1)/2 elements, see get_triu) or the dense tensor
spec_def('sent_numel', ['sh', 'symmetric'], 'tri_numel(sh[0], sh[1]) if symmetric else numel(sh)')
spec_def('nothing_pending', ['tdc'], 'all(tdc._allreduce_buckets[g] is None for g in tdc._allreduce_buckets)')
spec_def('is_square', ['sh'], 'len(sh) == 2 and sh[0] == sh[1]')

COMM_PRE = [('tensor_present', 'tensor is not None'), ('member_of_group', 'in_group(group)')]
NONSQUARE = [('NonSquareTensorError', 'group_size(group) != 1 and symmetric and not is_square(tensor.shape)')]

# ---- triangular packing (C14): interface used by the communicator; bodies verified below
contract('kfac.distributed:get_triu', props=['C14', 'C08'], params={'tensor': T}, result=T,
         requires=[('tensor_present', 'tensor is not None')],
         raises=[('ValueError', 'len(tensor.shape) != 2 or tensor.shape[0] > tensor.shape[1]')],
         ensures=[('packed_upper_triangle', 'val(result) == triu(val(tensor), tensor.shape)'),
                  ('vector_of_the_triangle', 'len(result.shape) == 1 and result.shape[0] == tri_numel(tensor.shape[0], tensor.shape[1])'),
                  ('n_times_n_plus_1_over_2_for_square[bounded]', 'implies(tensor.shape[0] == tensor.shape[1], '
                                                                  'result.shape[0] == (tensor.shape[0] * (tensor.shape[0] + 1)) // 2)'),
                  ('same_dtype_device', 'result.dtype is tensor.dtype and result.device is tensor.device'),
                  ('a_new_tensor', 'is_fresh(result) and val(tensor) == old(val(tensor))')],
         modifies=['ghost:next_sid'])
contract('kfac.distributed:fill_triu', props=['C14', 'C08'], params={'shape': KShape, 'triu_tensor': T}, result=T,
         requires=[('tensor_present', 'triu_tensor is not None')],
         raises=[('ValueError', 'len(shape) != 2')],
         ensures=[('symmetric_fill', 'val(result) == filltriu(shape, old(val(triu_tensor)), uninit(result.sid))'),
                  ('requested_shape', 'result.shape == shape'),
                  ('same_dtype_device', 'result.dtype is triu_tensor.dtype and result.device is triu_tensor.device'),
                  ('a_new_tensor', 'is_fresh(result) and val(triu_tensor) == old(val(triu_tensor))')],
         modifies=['ghost:next_sid'])

for name in ('allreduce',):
    contract(
        f'kfac.distributed:TorchDistributedCommunicator.{name}', props=['C08', 'C03', 'C13', 'C14', 'C04', 'C02'],
        params={'tensor': T, 'average': KBool, 'group': G, 'symmetric': KBool}, result=ANY,
        requires=COMM_PRE, raises=NONSQUARE,
        exsures=[('NonSquareTensorError', 'rejected_before_any_communication', 'trace() == old(trace())')],
        ensures=[
            ('single_member_group_is_identity', 'implies(group_size(group) == 1, result is tensor and trace() == old(trace()))'),
            ('future_otherwise', 'implies(group_size(group) != 1, is_future(result) and result.will_be is not None and is_fresh(result) '
                                 'and (result.will_be is tensor or is_fresh(result.will_be)))'),
            ('value', 'implies(group_size(group) != 1, val(result.will_be) == reduced(old(val(tensor)), old(tensor.shape), group, average, symmetric, uninit(result.will_be.sid)))'),
            ('shape_and_dtype', 'implies(group_size(group) != 1, result.will_be.shape == old(tensor.shape) '
                                'and result.will_be.dtype is old(tensor.dtype) and result.will_be.device is old(tensor.device))'),
            ('alone_nothing_changes', 'implies(group_size(group) == 1, val(tensor) == old(val(tensor)) and tensor.shape == old(tensor.shape))'),
        ],
        modifies=(['tensor.val', 'ghost:trace', 'ghost:next_sid'] if name == 'allreduce' else
                  ['self._allreduce_buckets', '*._tensors', '*._futures', '*._size', '*._communicated',
                   'ghost:trace', 'ghost:next_sid']),
        trusted=(name != 'allreduce'),
        note='interface contract used by the layer code; the communicator bodies are the subject of C08',
    )

contract(
    'kfac.distributed:TorchDistributedCommunicator.broadcast', props=['C08', 'C03', 'C13', 'C14', 'C02'],
    params={'tensor': T, 'src': KInt, 'group': G, 'symmetric': KBool}, result=ANY,
    requires=COMM_PRE + [('root_is_member', 'rank_in_group(src, group)')], raises=NONSQUARE,
    exsures=[('NonSquareTensorError', 'rejected_before_any_communication', 'trace() == old(trace())')],
    ensures=[
        ('single_member_group_is_identity', 'implies(group_size(group) == 1, result is tensor and trace() == old(trace()))'),
        ('future_otherwise', 'implies(group_size(group) != 1, is_future(result) and result.will_be is not None and is_fresh(result) '
                             'and (result.will_be is tensor or is_fresh(result.will_be)))'),
        ('root_keeps_its_value', 'implies(group_size(group) != 1 and my_rank() == src and not symmetric, val(result.will_be) == old(val(tensor)))'),
        ('shape_and_dtype', 'implies(group_size(group) != 1, result.will_be.shape == old(tensor.shape) '
                            'and result.will_be.dtype is old(tensor.dtype) and result.will_be.device is old(tensor.device))'),
        ('one_event', 'implies(group_size(group) != 1, len(trace()) == len(old(trace())) + 1)'),
        # C13: symmetric communication puts the packed triangle on the wire, dense communication the whole tensor
        ('elements_sent', 'implies(group_size(group) != 1, trace()[len(trace()) - 1][3] == sent_numel(old(tensor.shape), symmetric))'),
        ('alone_nothing_changes', 'implies(group_size(group) == 1, val(tensor) == old(val(tensor)) and tensor.shape == old(tensor.shape))'),
    ],
    modifies=['tensor.val', 'ghost:trace', 'ghost:next_sid'],
)
contract(
    'kfac.distributed:TorchDistributedCommunicator.flush_allreduce_buckets', props=['C08', 'C03'],
    requires=[('invariant', 'tdc_inv(self)')],
    ensures=[('nothing_left_pending', 'nothing_pending(self)'), ('invariant', 'tdc_inv(self)'),
             # C08 end to end on the real code with real processes (bounded stand-in for the [composed] clauses)
             ('every_request_resolves_like_an_unbucketed_allreduce[bounded]', 'bucketed_requests_ok(self)')],
    loops={'iter:self._allreduce_buckets.items()': dict(index='i', invariants=[
        ('flushed_prefix', 'all(self._allreduce_buckets[key_at(self._allreduce_buckets, m)] is None for m in range(i))'),
        ('same_groups', 'len(self._allreduce_buckets) == len(old(self._allreduce_buckets)) and '
                        'all(key_at(self._allreduce_buckets, m) == key_at(old(self._allreduce_buckets), m) for m in range(len(self._allreduce_buckets)))'),
        ('rest_untouched', 'all(self._allreduce_buckets[key_at(self._allreduce_buckets, m)] is '
                           'old(self._allreduce_buckets)[key_at(old(self._allreduce_buckets), m)] for m in range(i, len(self._allreduce_buckets)))'),
        ('invariant', 'tdc_inv(self)')])},
    modifies=['self._allreduce_buckets', '*._tensors', '*._futures', '*._size', '*._communicated', '*.val',
              'ghost:trace', 'ghost:next_sid'],
)


# ================================================================== bucket bookkeeping (C08): bodies under contract
B = 'kfac.distributed:AllreduceTensorBucket'
C = 'kfac.distributed:TorchDistributedCommunicator'
FUT = KRef('Future')
BK = KRef('AllreduceTensorBucket')
contract(f'{B}.__init__', props=['C08'], params={'group': G},
         ensures=[('empty_bucket_of_the_group', 'self._group is group and len(self._tensors) == 0 and len(self._futures) == 0 '
                                                'and self._size == 0 and not self._communicated')],
         modifies=['self._group', 'self._tensors', 'self._futures', 'self._size', 'self._communicated'])
contract(f'{B}.add_tensor', props=['C08'], params={'tensor': T}, result=FUT,
         requires=[('tensor_present', 'tensor is not None'), ('lists_aligned', 'len(self._tensors) == len(self._futures)')],
         ensures=[('appended_last', 'self._tensors == old(self._tensors) + [tensor] and self._futures == old(self._futures) + [result]'),
                  ('size_grows_by_the_tensor', 'self._size == old(self._size) + bytes_of(tensor)'),
                  ('a_new_pending_future', 'is_future(result) and is_fresh(result) and not result.resolved and result.will_be is not None'),
                  ('futures_stay_distinct', 'implies(old(distinct_futures(self)), distinct_futures(self))')],
         modifies=['self._tensors', 'self._futures', 'self._size', 'ghost:next_sid'])
contract(f'{C}.bucket_cap_bytes', props=['C08'], result=KInt, mode='inline')
contract(f'{C}.group_ranks', props=['C08', 'C03'], params={'group': G}, result=KSetInt,
         requires=[('member_of_group', 'in_group(group)')],
         ensures=[('the_ranks_of_the_group', 'result == group_members(group)')], modifies=[])

# class invariant of the communicator: a bucket is filed under the member set of ITS group (finding F4:
# the key used to be the group size), and its two lists run in parallel
spec_def('distinct_futures', ['b'], 'all(b._futures[i] is not b._futures[j] for i in range(len(b._futures)) for j in range(i))')
spec_def('bucket_ok', ['b', 'key'],
         'group_members(b._group) == key and in_group(b._group) and len(b._tensors) == len(b._futures) and not b._communicated '
         'and all(b._tensors[i] is not None and b._futures[i] is not None for i in range(len(b._tensors))) and distinct_futures(b)')
spec_def('tdc_inv', ['tdc'], 'all(implies(tdc._allreduce_buckets[k] is not None, bucket_ok(tdc._allreduce_buckets[k], k)) '
                             'for k in tdc._allreduce_buckets)')
spec_def('tdc_inv_except', ['tdc', 'k0'], 'all(implies(k != k0 and tdc._allreduce_buckets[k] is not None, bucket_ok(tdc._allreduce_buckets[k], k)) '
                                          'for k in tdc._allreduce_buckets)')
contract(f'{C}._get_allreduce_bucket', props=['C08'], params={'group': G}, result=BK,
         requires=[('member_of_group', 'in_group(group)')],
         ensures=[('bucket_of_the_group', 'result is (old(self._allreduce_buckets)[group_members(group)] '
                                          'if group_members(group) in old(self._allreduce_buckets) else None)'),
                  # the table is a defaultdict: looking a group up files None under it
                  ('lookup_files_the_key', 'self._allreduce_buckets[group_members(group)] is result'),
                  ('other_groups_unchanged', 'all(implies(k != group_members(group), k in self._allreduce_buckets and self._allreduce_buckets[k] is old(self._allreduce_buckets)[k]) for k in old(self._allreduce_buckets))'),
                  ('invariant_kept', 'implies(old(tdc_inv(self)), tdc_inv(self))'),
                  ('invariant_of_the_other_groups_kept', 'implies(old(tdc_inv_except(self, group_members(group))), tdc_inv_except(self, group_members(group)))')],
         modifies=['self._allreduce_buckets'])
contract(f'{C}._new_allreduce_bucket', props=['C08'], params={'group': G}, result=BK,
         requires=[('member_of_group', 'in_group(group)'), ('invariant_of_the_other_groups', 'tdc_inv_except(self, group_members(group))')],
         lets={'cur': '(old(self._allreduce_buckets)[group_members(group)] if group_members(group) in old(self._allreduce_buckets) else None)'},
         raises=[('RuntimeError', 'cur is not None and not cur._communicated')],
         ensures=[('fresh_empty_bucket_for_the_group', 'is_fresh(result) and result._group is group and len(result._tensors) == 0 '
                                                       'and len(result._futures) == 0 and result._size == 0 and not result._communicated'),
                  ('filed_under_the_group', 'self._allreduce_buckets[group_members(group)] is result'),
                  ('other_groups_unchanged', 'all(implies(k != group_members(group), k in self._allreduce_buckets and self._allreduce_buckets[k] is old(self._allreduce_buckets)[k]) for k in old(self._allreduce_buckets))'),
                  ('invariant', 'tdc_inv(self)')],
         modifies=['self._allreduce_buckets'])

# ---- AllreduceTensorBucket.allreduce: one fused collective; every registered future resolves to the
# reduction of ITS tensor (value, shape and dtype), each tensor is communicated exactly once
RESOLVED_V = 'val(awaited(old(self._futures)[i])) == allsum(old(vals(self._tensors))[i], self._group)'
RESOLVED_S = 'awaited(old(self._futures)[i]).shape == old(self._tensors)[i].shape'
RESOLVED_D = 'awaited(old(self._futures)[i]).dtype is old(self._tensors)[i].dtype'
RESOLVED_I = ('val(old(self._futures)[i].will_be) == allsum(old(val(self._tensors[i])), self._group) '
              'and old(self._futures)[i].will_be.shape == old(self._tensors[i].shape) '
              'and old(self._futures)[i].will_be.dtype is old(self._tensors[i].dtype)')
contract(
    f'{B}.allreduce', props=['C08', 'C03'], result=ANY,
    requires=[('lists_aligned', 'len(self._tensors) == len(self._futures)'), ('member_of_group', 'in_group(self._group)'),
              ('entries_present', 'all(self._tensors[i] is not None and self._futures[i] is not None for i in range(len(self._tensors)))'),
              ('futures_distinct', 'distinct_futures(self)')],
    raises=[('RuntimeError', 'self._communicated')],
    ensures=[
        ('marked_communicated', 'self._communicated'),
        ('empty_bucket_sends_nothing', 'implies(len(old(self._tensors)) == 0, result is None and trace() == old(trace()))'),
        ('one_fused_collective', 'implies(len(old(self._tensors)) != 0, len(trace()) == len(old(trace())) + 1)'),
        ('every_future_resolves_to_the_reduction_of_its_tensor',
         'all(' + RESOLVED_V + ' for i in range(len(old(self._tensors))))'),
        ('with_the_shape_of_its_tensor', 'all(' + RESOLVED_S + ' for i in range(len(old(self._tensors))))'),
        ('with_the_dtype_of_its_tensor', 'all(' + RESOLVED_D + ' for i in range(len(old(self._tensors))))'),
        ('nothing_kept', 'implies(len(old(self._tensors)) != 0, len(self._tensors) == 0 and len(self._futures) == 0)'),
    ],
    # a bucket of ONE tensor is reduced in place (flatten of a single tensor is a view of it)
    modifies=['self._communicated', 'self._tensors', 'self._futures', 'self._tensors[0].val if len(self._tensors) == 1', 'ghost:trace', 'ghost:next_sid'],
)
contract(
    f'{B}.allreduce._callback', props=['C08'], mode='inline',
    loops={'iter:zip(self._tensors, tensors, self._futures)': dict(index='i', invariants=[
        ('resolved_so_far', 'all(val(self._futures[m].will_be) == val(tensors[m]) and self._futures[m].will_be.shape == tensors[m].shape '
                            'and self._futures[m].will_be.dtype is self._tensors[m].dtype for m in range(i))')])},
)


# ---- allreduce_bucketed: the tensor is registered in the bucket of ITS group; the returned future is the
# post-processing (average, unpack) of the bucket's future for it.  The clauses marked [composed] are what the
# callers use; they are the composition of `registered_in_the_bucket_of_the_group` + `derived_from_the_bucket_future`
# here, `every_future_resolves_to_the_reduction_of_its_tensor` of AllreduceTensorBucket.allreduce, S8
# (a then-callback runs when its source future resolves) and A-pending (the tensor object is not already
# pending in a bucket: a single-tensor bucket is reduced in place) -- see DESIGN 13.9.
KEY = 'group_members(group)'
BKT = f'self._allreduce_buckets[{KEY}]'
contract(
    f'{C}.allreduce_bucketed', props=['C08', 'C03', 'C13', 'C14', 'C04', 'C02'],
    params={'tensor': T, 'average': KBool, 'group': G, 'symmetric': KBool}, result=ANY,
    requires=COMM_PRE + [('invariant', 'tdc_inv(self)'), ('capacity_is_a_number', 'isinstance(self._bucket_cap_mb, (int, float))')],
    raises=NONSQUARE,
    exsures=[('NonSquareTensorError', 'rejected_before_any_communication', 'trace() == old(trace())')],
    ensures=[
        ('single_member_group_is_identity', 'implies(group_size(group) == 1, result is tensor and trace() == old(trace()))'),
        ('future_otherwise', 'implies(group_size(group) != 1, is_future(result) and result.will_be is not None and is_fresh(result))'),
        ('invariant', 'tdc_inv(self)'),
        ('registered_in_the_bucket_of_the_group',
         f'implies(group_size(group) != 1, {BKT} is not None and group_members({BKT}._group) == {KEY} and len({BKT}._tensors) >= 1 '
         f'and (val({BKT}._tensors[len({BKT}._tensors) - 1]) == triu(old(val(tensor)), old(tensor.shape)) if symmetric '
         f'else {BKT}._tensors[len({BKT}._tensors) - 1] is tensor))'),
        ('derived_from_the_bucket_future',
         f'implies(group_size(group) != 1, val(result.will_be) == '
         f'post_reduce(val({BKT}._futures[len({BKT}._futures) - 1].will_be), old(tensor.shape), group, average, symmetric, uninit(result.will_be.sid)))'),
        ('bucket_within_capacity_unless_single', f'implies(group_size(group) != 1, {BKT}._size <= int(self._bucket_cap_mb * 1000 * 1000) '
                                                 f'or len({BKT}._tensors) == 1)'),
        ('buckets_of_other_groups_untouched',
         f'all(implies(k != {KEY}, k in self._allreduce_buckets and self._allreduce_buckets[k] is old(self._allreduce_buckets)[k] and '
         f'implies(self._allreduce_buckets[k] is not None, len(self._allreduce_buckets[k]._tensors) == old(len(self._allreduce_buckets[k]._tensors)) '
         f'and not self._allreduce_buckets[k]._communicated)) for k in old(self._allreduce_buckets))'),
        ('at_most_one_fused_collective', 'len(trace()) <= len(old(trace())) + 1'),
        ('value[composed]', 'implies(group_size(group) != 1, val(result.will_be) == reduced(old(val(tensor)), old(tensor.shape), group, average, symmetric, uninit(result.will_be.sid)))'),
        ('shape_and_dtype[composed]', 'implies(group_size(group) != 1, result.will_be.shape == old(tensor.shape) '
                                      'and result.will_be.dtype is old(tensor.dtype) and result.will_be.device is old(tensor.device))'),
        ('alone_nothing_changes', 'implies(group_size(group) == 1, val(tensor) == old(val(tensor)) and tensor.shape == old(tensor.shape))'),
    ],
    modifies=['self._allreduce_buckets', '*._tensors', '*._futures', '*._size', '*._communicated', '*.val', 'ghost:trace', 'ghost:next_sid'],
)

contract(f'{C}.__init__', props=['C08'], params={'bucket_cap_mb': KReal},
         ensures=[('no_buckets_yet', 'len(self._allreduce_buckets) == 0 and tdc_inv(self) and nothing_pending(self)'),
                  ('capacity', 'self._bucket_cap_mb == bucket_cap_mb')],
         modifies=['self._bucket_cap_mb', 'self._allreduce_buckets'])


# ================================================================== C14: packing is lossless (mathematics of the terms above)
from pyvc.tensors import KMat   # noqa: E402
SYM = 'all(elem({m}, i, j) == elem({m}, j, i) for i in range(n) for j in range(n))'
lemma('kfac.distributed:fill_triu', 'pack_then_unpack_reproduces_a_symmetric_matrix', props=['C14'],
      vars={'X': KMat, 'e': KMat, 'n': KInt},
      hyps=['n >= 0', SYM.format(m='X')],
      goal='all(elem(filltriu([n, n], triu(X, [n, n]), e), i, j) == elem(X, i, j) for i in range(n) for j in range(n))',
      theory=['triu'],
      text='fill_triu(shape, get_triu(X)) has exactly the elements of X for every symmetric n x n matrix X, whatever '
           'the initial content e of the output buffer')
lemma('kfac.distributed:fill_triu', 'symmetric_reduction_equals_dense_reduction', props=['C14', 'C08'],
      vars={'X': KMat, 'e': KMat, 'n': KInt, 'c': KReal, 'g': G},
      hyps=['n >= 0', SYM.format(m='allsum(X, g)')],
      goal='all(elem(filltriu([n, n], smul(c, allsum(triu(X, [n, n]), g)), e), i, j) == elem(smul(c, allsum(X, g)), i, j) '
           'for i in range(n) for j in range(n)) and '
           'all(elem(filltriu([n, n], allsum(triu(X, [n, n]), g), e), i, j) == elem(allsum(X, g), i, j) for i in range(n) for j in range(n))',
      theory=['triu'],
      text='reducing the packed upper triangle and unpacking gives, element for element, the dense reduction '
           '(sum or average) whenever the reduced matrix is symmetric')
