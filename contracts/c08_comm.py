"""TorchDistributedCommunicator and helpers (kfac/distributed.py): C08, C14, C03, C13."""
from pyvc.contracts import contract, lemma, spec_def
from pyvc.values import KInt, KReal, KBool, KDyn, KFn, KStr, KDict, KList, KRef, KTuple, KSetInt
from pyvc.tensors import KShape

T = KRef('Tensor')
G = KRef('ProcessGroup')
ANY = KRef(None)

# value an (un)bucketed allreduce of `v` (shape `sh`) resolves to -- ONE spec function shared by the
# contracts of allreduce() and allreduce_bucketed(), so their equivalence (C08) is a matter of both
# bodies meeting it
spec_def('reduced', ['v', 'sh', 'group', 'average', 'symmetric'],
         '(filltriu(sh, smul(1 / group_size(group), allsum(triu(v), group))) if average else filltriu(sh, allsum(triu(v), group))) '
         'if symmetric else (smul(1 / group_size(group), allsum(v, group)) if average else allsum(v, group))')
spec_def('sent_numel', ['sh', 'symmetric'], '(sh[0] * (sh[0] + 1)) // 2 if symmetric else numel(sh)')
spec_def('nothing_pending', ['tdc'], 'all(tdc._allreduce_buckets[g] is None for g in tdc._allreduce_buckets)')
spec_def('is_square', ['sh'], 'len(sh) == 2 and sh[0] == sh[1]')

COMM_PRE = [('tensor_present', 'tensor is not None'), ('member_of_group', 'in_group(group)')]
NONSQUARE = [('NonSquareTensorError', 'group_size(group) != 1 and symmetric and not is_square(tensor.shape)')]

# ---- triangular packing (C14): interface used by the communicator; bodies verified below
contract('kfac.distributed:get_triu', props=['C14', 'C08'], params={'tensor': T}, result=T,
         requires=[('tensor_present', 'tensor is not None')],
         raises=[('ValueError', 'len(tensor.shape) != 2 or tensor.shape[0] > tensor.shape[1]')],
         ensures=[('packed_upper_triangle', 'val(result) == triu(val(tensor))'),
                  ('vector_of_the_triangle', 'len(result.shape) == 1 and result.shape[0] == tri_numel(tensor.shape[0], tensor.shape[1])'),
                  ('same_dtype_device', 'result.dtype is tensor.dtype and result.device is tensor.device'),
                  ('a_new_tensor', 'is_fresh(result) and val(tensor) == old(val(tensor))')],
         modifies=['ghost:next_sid'], trusted=True)
contract('kfac.distributed:fill_triu', props=['C14', 'C08'], params={'shape': KShape, 'triu_tensor': T}, result=T,
         requires=[('tensor_present', 'triu_tensor is not None')],
         raises=[('ValueError', 'len(shape) != 2')],
         ensures=[('symmetric_fill', 'val(result) == filltriu(shape, val(triu_tensor))'),
                  ('requested_shape', 'result.shape == shape'),
                  ('same_dtype_device', 'result.dtype is triu_tensor.dtype and result.device is triu_tensor.device'),
                  ('a_new_tensor', 'is_fresh(result) and val(triu_tensor) == old(val(triu_tensor))')],
         modifies=['ghost:next_sid'], trusted=True)

for name in ('allreduce', 'allreduce_bucketed'):
    contract(
        f'kfac.distributed:TorchDistributedCommunicator.{name}', props=['C08', 'C03', 'C13', 'C14', 'C04', 'C02'],
        params={'tensor': T, 'average': KBool, 'group': G, 'symmetric': KBool}, result=ANY,
        requires=COMM_PRE, raises=NONSQUARE,
        ensures=[
            ('single_member_group_is_identity', 'implies(group_size(group) == 1, result is tensor and trace() == old(trace()))'),
            ('future_otherwise', 'implies(group_size(group) != 1, is_future(result) and result.will_be is not None and is_fresh(result) '
                                 'and (result.will_be is tensor or is_fresh(result.will_be)))'),
            ('value', 'implies(group_size(group) != 1, val(result.will_be) == reduced(old(val(tensor)), old(tensor.shape), group, average, symmetric))'),
            ('shape_and_dtype', 'implies(group_size(group) != 1, result.will_be.shape == old(tensor.shape) '
                                'and result.will_be.dtype is old(tensor.dtype) and result.will_be.device is old(tensor.device))'),
            ('alone_nothing_changes', 'implies(group_size(group) == 1, val(tensor) == old(val(tensor)) and tensor.shape == old(tensor.shape))'),
        ],
        modifies=(['tensor.val', 'ghost:trace', 'ghost:next_sid'] if name == 'allreduce' else
                  ['self._allreduce_buckets', '*._tensors', '*._futures', '*._size', '*._communicated',
                   'ghost:trace', 'ghost:next_sid']),
        trusted=(name != 'allreduce'),
        note='interface contract used by the layer code; the communicator bodies are the subject of C08',
    )

contract(
    'kfac.distributed:TorchDistributedCommunicator.broadcast', props=['C08', 'C03', 'C13', 'C14', 'C02'],
    params={'tensor': T, 'src': KInt, 'group': G, 'symmetric': KBool}, result=ANY,
    requires=COMM_PRE + [('root_is_member', 'rank_in_group(src, group)')], raises=NONSQUARE,
    ensures=[
        ('single_member_group_is_identity', 'implies(group_size(group) == 1, result is tensor and trace() == old(trace()))'),
        ('future_otherwise', 'implies(group_size(group) != 1, is_future(result) and result.will_be is not None and is_fresh(result) '
                             'and (result.will_be is tensor or is_fresh(result.will_be)))'),
        ('root_keeps_its_value', 'implies(group_size(group) != 1 and my_rank() == src and not symmetric, val(result.will_be) == old(val(tensor)))'),
        ('shape_and_dtype', 'implies(group_size(group) != 1, result.will_be.shape == old(tensor.shape) '
                            'and result.will_be.dtype is old(tensor.dtype) and result.will_be.device is old(tensor.device))'),
        ('one_event', 'implies(group_size(group) != 1, len(trace()) == len(old(trace())) + 1)'),
        ('alone_nothing_changes', 'implies(group_size(group) == 1, val(tensor) == old(val(tensor)) and tensor.shape == old(tensor.shape))'),
    ],
    modifies=['tensor.val', 'ghost:trace', 'ghost:next_sid'],
)
contract(
    'kfac.distributed:TorchDistributedCommunicator.flush_allreduce_buckets', props=['C08', 'C03'],
    ensures=[('nothing_left_pending', 'nothing_pending(self)')], modifies=['self._allreduce_buckets', '*._tensors', '*._futures', '*._size', '*._communicated',
                          'ghost:trace', 'ghost:next_sid'], trusted=True,
)


# ================================================================== bucket bookkeeping (C08): bodies under contract
B = 'kfac.distributed:AllreduceTensorBucket'
C = 'kfac.distributed:TorchDistributedCommunicator'
FUT = KRef('Future')
BK = KRef('AllreduceTensorBucket')
contract(f'{B}.__init__', props=['C08'], params={'group': G},
         ensures=[('empty_bucket_of_the_group', 'self._group is group and len(self._tensors) == 0 and len(self._futures) == 0 '
                                                'and self._size == 0 and not self._communicated')],
         modifies=['self._group', 'self._tensors', 'self._futures', 'self._size', 'self._communicated'])
contract(f'{B}.add_tensor', props=['C08'], params={'tensor': T}, result=FUT,
         requires=[('tensor_present', 'tensor is not None'), ('lists_aligned', 'len(self._tensors) == len(self._futures)')],
         ensures=[('appended_last', 'self._tensors == old(self._tensors) + [tensor] and self._futures == old(self._futures) + [result]'),
                  ('size_grows_by_the_tensor', 'self._size == old(self._size) + bytes_of(tensor)'),
                  ('a_new_pending_future', 'is_future(result) and is_fresh(result) and not result.resolved')],
         modifies=['self._tensors', 'self._futures', 'self._size', 'ghost:next_sid'])
contract(f'{C}.bucket_cap_bytes', props=['C08'], result=KInt, mode='inline')
contract(f'{C}.group_ranks', props=['C08', 'C03'], params={'group': G}, result=KSetInt,
         requires=[('member_of_group', 'in_group(group)')],
         ensures=[('the_ranks_of_the_group', 'result == group_members(group)')], modifies=[])

# class invariant of the communicator: a bucket is filed under the member set of ITS group (finding F4:
# the key used to be the group size), and its two lists run in parallel
spec_def('bucket_ok', ['b', 'key'], 'group_members(b._group) == key and in_group(b._group) and len(b._tensors) == len(b._futures)')
spec_def('tdc_inv', ['tdc'], 'all(implies(tdc._allreduce_buckets[k] is not None, bucket_ok(tdc._allreduce_buckets[k], k)) '
                             'for k in tdc._allreduce_buckets)')
contract(f'{C}._get_allreduce_bucket', props=['C08'], params={'group': G}, result=BK,
         requires=[('member_of_group', 'in_group(group)'), ('invariant', 'tdc_inv(self)')],
         ensures=[('bucket_of_the_group', 'result is (old(self._allreduce_buckets)[group_members(group)] '
                                          'if group_members(group) in old(self._allreduce_buckets) else None)'),
                  # the table is a defaultdict: looking a group up files None under it
                  ('lookup_files_the_key', 'self._allreduce_buckets[group_members(group)] is result'),
                  ('invariant', 'tdc_inv(self)')],
         modifies=['self._allreduce_buckets'])
contract(f'{C}._new_allreduce_bucket', props=['C08'], params={'group': G}, result=BK,
         requires=[('member_of_group', 'in_group(group)'), ('invariant', 'tdc_inv(self)')],
         lets={'cur': '(old(self._allreduce_buckets)[group_members(group)] if group_members(group) in old(self._allreduce_buckets) else None)'},
         raises=[('RuntimeError', 'cur is not None and not cur._communicated')],
         ensures=[('fresh_empty_bucket_for_the_group', 'is_fresh(result) and result._group is group and len(result._tensors) == 0 '
                                                       'and len(result._futures) == 0 and result._size == 0 and not result._communicated'),
                  ('filed_under_the_group', 'self._allreduce_buckets[group_members(group)] is result'),
                  ('invariant', 'tdc_inv(self)')],
         modifies=['self._allreduce_buckets'])

# ---- AllreduceTensorBucket.allreduce: one fused collective; every registered future resolves to the
# reduction of ITS tensor (value, shape and dtype), each tensor is communicated exactly once
spec_def('distinct_futures', ['b'], 'all(b._futures[i] is not b._futures[j] for i in range(len(b._futures)) for j in range(i))')
RESOLVED_V = 'val(awaited(old(self._futures)[i])) == allsum(old(vals(self._tensors))[i], self._group)'
RESOLVED_S = 'awaited(old(self._futures)[i]).shape == old(self._tensors)[i].shape'
RESOLVED_D = 'awaited(old(self._futures)[i]).dtype is old(self._tensors)[i].dtype'
RESOLVED_I = ('val(old(self._futures)[i].will_be) == allsum(old(val(self._tensors[i])), self._group) '
              'and old(self._futures)[i].will_be.shape == old(self._tensors[i].shape) '
              'and old(self._futures)[i].will_be.dtype is old(self._tensors[i].dtype)')
contract(
    f'{B}.allreduce', props=['C08', 'C03'], result=ANY,
    requires=[('lists_aligned', 'len(self._tensors) == len(self._futures)'), ('member_of_group', 'in_group(self._group)'),
              ('entries_present', 'all(self._tensors[i] is not None and self._futures[i] is not None for i in range(len(self._tensors)))'),
              ('futures_distinct', 'distinct_futures(self)')],
    raises=[('RuntimeError', 'self._communicated')],
    ensures=[
        ('marked_communicated', 'self._communicated'),
        ('empty_bucket_sends_nothing', 'implies(len(old(self._tensors)) == 0, result is None and trace() == old(trace()))'),
        ('one_fused_collective', 'implies(len(old(self._tensors)) != 0, len(trace()) == len(old(trace())) + 1)'),
        ('every_future_resolves_to_the_reduction_of_its_tensor',
         'all(' + RESOLVED_V + ' for i in range(len(old(self._tensors))))'),
        ('with_the_shape_of_its_tensor', 'all(' + RESOLVED_S + ' for i in range(len(old(self._tensors))))'),
        ('with_the_dtype_of_its_tensor', 'all(' + RESOLVED_D + ' for i in range(len(old(self._tensors))))'),
        ('nothing_kept', 'implies(len(old(self._tensors)) != 0, len(self._tensors) == 0 and len(self._futures) == 0)'),
    ],
    # a bucket of ONE tensor is reduced in place (flatten of a single tensor is a view of it)
    modifies=['self._communicated', 'self._tensors', 'self._futures', 'self._tensors[0].val', 'ghost:trace', 'ghost:next_sid'],
)
contract(
    f'{B}.allreduce._callback', props=['C08'], mode='inline',
    loops={'iter:zip(self._tensors, tensors, self._futures)': dict(index='i', invariants=[
        ('resolved_so_far', 'all(val(self._futures[m].will_be) == val(tensors[m]) and self._futures[m].will_be.shape == tensors[m].shape '
                            'and self._futures[m].will_be.dtype is self._tensors[m].dtype for m in range(i))')])},
)
