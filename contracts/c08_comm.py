"""TorchDistributedCommunicator and helpers (kfac/distributed.py): C08, C14, C03, C13."""
from pyvc.contracts import contract, lemma, spec_def
from pyvc.values import KInt, KReal, KBool, KDyn, KFn, KStr, KDict, KList, KRef, KTuple
from pyvc.tensors import KShape

T = KRef('Tensor')
G = KRef('ProcessGroup')
ANY = KRef(None)

# value an (un)bucketed allreduce of `v` (shape `sh`) resolves to -- ONE spec function shared by the
# contracts of allreduce() and allreduce_bucketed(), so their equivalence (C08) is a matter of both
# bodies meeting it
spec_def('reduced', ['v', 'sh', 'group', 'average', 'symmetric'],
         '(filltriu(sh, smul(1 / group_size(group), allsum(triu(v), group))) if average else filltriu(sh, allsum(triu(v), group))) '
         'if symmetric else (smul(1 / group_size(group), allsum(v, group)) if average else allsum(v, group))')
spec_def('sent_numel', ['sh', 'symmetric'], '(sh[0] * (sh[0] + 1)) // 2 if symmetric else numel(sh)')
spec_def('nothing_pending', ['tdc'], 'all(tdc._allreduce_buckets[g] is None for g in tdc._allreduce_buckets)')
spec_def('is_square', ['sh'], 'len(sh) == 2 and sh[0] == sh[1]')

COMM_PRE = [('tensor_present', 'tensor is not None'), ('member_of_group', 'in_group(group)')]
NONSQUARE = [('NonSquareTensorError', 'group_size(group) != 1 and symmetric and not is_square(tensor.shape)')]

for name in ('allreduce', 'allreduce_bucketed'):
    contract(
        f'kfac.distributed:TorchDistributedCommunicator.{name}', props=['C08', 'C03', 'C13', 'C14', 'C04', 'C02'],
        params={'tensor': T, 'average': KBool, 'group': G, 'symmetric': KBool}, result=ANY,
        requires=COMM_PRE, raises=NONSQUARE,
        ensures=[
            ('single_member_group_is_identity', 'implies(group_size(group) == 1, result is tensor and trace() == old(trace()))'),
            ('future_otherwise', 'implies(group_size(group) != 1, is_future(result) and result.will_be is not None and is_fresh(result) '
                                 'and (result.will_be is tensor or is_fresh(result.will_be)))'),
            ('value', 'implies(group_size(group) != 1, val(result.will_be) == reduced(old(val(tensor)), old(tensor.shape), group, average, symmetric))'),
            ('shape_and_dtype', 'implies(group_size(group) != 1, result.will_be.shape == old(tensor.shape) '
                                'and result.will_be.dtype is old(tensor.dtype) and result.will_be.device is old(tensor.device))'),
            ('alone_nothing_changes', 'implies(group_size(group) == 1, val(tensor) == old(val(tensor)) and tensor.shape == old(tensor.shape))'),
        ],
        modifies=(['tensor.val', 'ghost:trace', 'ghost:next_sid'] if name == 'allreduce' else
                  ['self._allreduce_buckets', '*._tensors', '*._futures', '*._size', '*._communicated',
                   'ghost:trace', 'ghost:next_sid']),
        trusted=True,
        note='interface contract used by the layer code; the communicator bodies are the subject of C08',
    )

contract(
    'kfac.distributed:TorchDistributedCommunicator.broadcast', props=['C08', 'C03', 'C13', 'C14', 'C02'],
    params={'tensor': T, 'src': KInt, 'group': G, 'symmetric': KBool}, result=ANY,
    requires=COMM_PRE + [('root_is_member', 'rank_in_group(src, group)')], raises=NONSQUARE,
    ensures=[
        ('single_member_group_is_identity', 'implies(group_size(group) == 1, result is tensor and trace() == old(trace()))'),
        ('future_otherwise', 'implies(group_size(group) != 1, is_future(result) and result.will_be is not None and is_fresh(result) '
                             'and (result.will_be is tensor or is_fresh(result.will_be)))'),
        ('root_keeps_its_value', 'implies(group_size(group) != 1 and my_rank() == src and not symmetric, val(result.will_be) == old(val(tensor)))'),
        ('shape_and_dtype', 'implies(group_size(group) != 1, result.will_be.shape == old(tensor.shape) '
                            'and result.will_be.dtype is old(tensor.dtype) and result.will_be.device is old(tensor.device))'),
        ('one_event', 'implies(group_size(group) != 1, len(trace()) == len(old(trace())) + 1)'),
        ('alone_nothing_changes', 'implies(group_size(group) == 1, val(tensor) == old(val(tensor)) and tensor.shape == old(tensor.shape))'),
    ],
    modifies=['tensor.val', 'ghost:trace', 'ghost:next_sid'], trusted=True,
)
contract(
    'kfac.distributed:TorchDistributedCommunicator.flush_allreduce_buckets', props=['C08', 'C03'],
    ensures=[('nothing_left_pending', 'nothing_pending(self)')], modifies=['self._allreduce_buckets', '*._tensors', '*._futures', '*._size', '*._communicated',
                          'ghost:trace', 'ghost:next_sid'], trusted=True,
)
