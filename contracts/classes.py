"""Field declarations (sort hints) for repository and library classes.

These are the 'type annotations as sort hints' of DESIGN 3.2: every field a verified function
touches has a declared kind; `Dyn` is the escape for dynamically typed fields.
"""
from pyvc.contracts import klass, module_global
from pyvc.values import (KInt, KReal, KBool, KStr, KDyn, KFn, KSetInt, KRef, KList, KTuple, KDict)

klass('BaseKFACPreconditioner', {
    '_accumulation_steps': KInt,
    '_assignment': KRef('WorkAssignment'),
    '_damping': KDyn, '_factor_decay': KDyn, '_factor_update_steps': KDyn,
    '_inv_update_steps': KDyn, '_kl_clip': KDyn, '_lr': KDyn,
    '_defaults': KDyn,
    '_layers': KDict(KRef('Module'), KTuple(KStr, KRef('KFACBaseLayer'))),
    '_loglevel': KInt,
    '_tdc': KRef('TorchDistributedCommunicator'),
    '_update_factors_in_hook': KBool,
    '_steps': KInt,
    '_mini_steps': KDict(KStr, KInt, default=0),
})

klass('LambdaParamScheduler', {
    '_preconditioner': KRef('BaseKFACPreconditioner'),
    '_factor_update_steps_lambda': KDyn, '_inv_update_steps_lambda': KDyn,
    '_damping_lambda': KDyn, '_factor_decay_lambda': KDyn, '_kl_clip_lambda': KDyn,
    '_lr_lambda': KDyn,
})

klass('KAISAAssignment', {
    'local_rank': KInt, 'world_size': KInt, 'grad_worker_fraction': KReal, 'grad_workers': KInt,
    'group_func': KFn, 'colocate_factors': KBool,
    '_inv_assignments': KDict(KStr, KDict(KStr, KInt)),
    '_grad_receiver_groups': KDict(KStr, KRef('_Group')),
    '_grad_worker_groups': KDict(KStr, KRef('_Group')),
})
klass('_Group', {'ranks': KSetInt, 'group': KRef('ProcessGroup')})
klass('WorkAssignment', {})

module_global('kfac.tracing', '_func_traces', KDict(KStr, KList(KReal)))

# library classes (opaque objects)
klass('Module', {'training': KBool, 'fwd_hooks': KInt, 'bwd_hooks': KInt}, lib=True)
klass('ProcessGroup', {}, lib=True)
klass('Tensor', {}, lib=True)
klass('Future', {}, lib=True)

klass('TorchDistributedCommunicator', {})
klass('KFACBaseLayer', {})

# ---------------------------------------------------------------- tensors / modules / layers (Tier B1)
from pyvc.tensors import KMat, KShape, KDType, KDevice   # noqa: E402  (declares Tensor/Future)
import pyvc.distmodel  # noqa: E402,F401

T_ = KRef('Tensor')
TF = KRef(None, classes=('Tensor', 'Future'))
klass('Module', {'training': KBool, 'fwd_hooks': KInt, 'bwd_hooks': KInt, 'weight': T_, 'bias': T_,
                 'kernel_size': KTuple(KInt, KInt), 'stride': KTuple(KInt, KInt), 'padding': KTuple(KInt, KInt),
                 'in_channels': KInt, 'out_channels': KInt, 'cname': KStr}, lib=True)
klass('ModuleHelper', {'module': KRef('Module')})
klass('KFACBaseLayer', {
    'module': KRef('ModuleHelper'), 'tdc': KRef('TorchDistributedCommunicator'),
    'allreduce_method': KRef('AllreduceMethod'), 'factor_dtype': KDType, 'grad_scaler': KDyn,
    'inv_dtype': KDType, 'symmetry_aware': KBool, 'eps': KReal, 'symmetric_factors': KBool,
    '_a_batch': T_, '_g_batch': T_, '_a_count': KInt, '_g_count': KInt,
    '_a_factor': TF, '_g_factor': TF, '_grad': TF,      # Tensor | Future | None (type invariant)
    # ghost fields (specification only; written by the ghost_sets of compute_a_inv / compute_g_inv): which
    # factor tensor the current second-order data was computed from, and with which damping value
    'gh_a_from': T_, 'gh_g_from': T_, 'gh_a_damping': KDyn, 'gh_g_damping': KDyn, 'gh_pg_damping': KDyn,
})
klass('KFACEigenLayer', {'prediv_eigenvalues': KBool, '_qa': TF, '_qg': TF, '_da': TF, '_dg': TF, '_dgda': TF})
klass('KFACInverseLayer', {'_a_inv': TF, '_g_inv': TF})
klass('TorchDistributedCommunicator', {
    '_bucket_cap_mb': KReal,
    '_allreduce_buckets': KDict(KSetInt, KRef('AllreduceTensorBucket'), default='none'),
})
klass('AllreduceTensorBucket', {'_group': KRef('ProcessGroup'), '_tensors': KList(T_), '_futures': KList(KRef('Future')),
                                '_size': KInt, '_communicated': KBool})
for _e in ('AllreduceMethod', 'AssignmentStrategy', 'ComputeMethod', 'DistributedStrategy'):
    klass(_e, {})
