"""GPTNeoXAssignment (kfac/gpt_neox/assignment.py): C12.

The class needs DeepSpeed's process topology and creates process groups; the property is a statement about ALL
ranks of a 3-D topology at once.  It is decided by the bounded run-time contract check: the real constructor is run
for every rank of a generated topology in one process (torch.distributed.new_group recorded, not executed), against
an executable whole-world reference written from the property statement (labelled bounded, never counted as proved).
"""
from pyvc.contracts import contract
from pyvc.values import KInt, KReal, KStr, KDict, KDyn, KRef

contract(
    'kfac.gpt_neox.assignment:GPTNeoXAssignment.__init__', props=['C12', 'C03'], mode='bounded',
    params={'work': KDict(KStr, KDict(KStr, KReal)), 'local_rank': KInt, 'topology': KDyn,
            'data_parallel_group': KRef('ProcessGroup'), 'model_parallel_group': KRef('ProcessGroup')},
    ensures=[('whole_topology_consistent', 'neox_world_consistent(self, work, topology)')],
    modifies=['*'],
)
