"""WorkAssignment interface as seen by BaseKFACPreconditioner (C03, C05, C13): every query is a pure
function of the assignment object; `wa_ok(a, names)` is the caller-side content of C06 / C12."""
from pyvc.contracts import contract, spec_def
from pyvc.values import KInt, KReal, KBool, KDyn, KFn, KStr, KDict, KList, KRef, KTuple

W = 'kfac.assignment:WorkAssignment'
G = KRef('ProcessGroup')
contract(f'{W}.broadcast_gradients', props=['C03', 'C13'], result=KBool, trusted=True,
         ensures=[('pure', 'result == wa_broadcast_gradients(self)')], modifies=[])
contract(f'{W}.broadcast_inverses', props=['C03', 'C13'], result=KBool, trusted=True,
         ensures=[('pure', 'result == wa_broadcast_inverses(self)')], modifies=[])
contract(f'{W}.inv_worker', props=['C03', 'C13'], params={'layer': KStr, 'factor': KStr}, result=KInt, trusted=True,
         ensures=[('pure', 'result == wa_inv_worker(self, layer, factor)')], modifies=[])
contract(f'{W}.is_grad_worker', props=['C03', 'C13'], params={'layer': KStr}, result=KBool, trusted=True,
         ensures=[('pure', 'result == wa_is_grad_worker(self, layer)')], modifies=[])
contract(f'{W}.src_grad_worker', props=['C03', 'C13'], params={'layer': KStr}, result=KInt, trusted=True,
         ensures=[('pure', 'result == wa_src_grad_worker(self, layer)')], modifies=[])
contract(f'{W}.factor_group', props=['C03', 'C13'], params={'layer': KStr, 'factor': KStr}, result=G, trusted=True,
         ensures=[('pure', 'result is wa_factor_group(self, layer, factor)')], modifies=[])
contract(f'{W}.grad_worker_group', props=['C03', 'C13'], params={'layer': KStr}, result=G, trusted=True,
         ensures=[('pure', 'result is wa_worker_group(self, layer)')], modifies=[])
contract(f'{W}.grad_receiver_group', props=['C03', 'C13'], params={'layer': KStr}, result=G, trusted=True,
         ensures=[('pure', 'result is wa_receiver_group(self, layer)')], modifies=[])

# what the preconditioner relies on (established by KAISAAssignment / GPTNeoXAssignment: C06, C12)
spec_def('wa_layer_ok', ['a', 'n'],
         "in_group(wa_factor_group(a, n, 'A')) and in_group(wa_factor_group(a, n, 'G')) "
         "and implies(wa_is_grad_worker(a, n), in_group(wa_worker_group(a, n))) "
         "and rank_in_group(wa_inv_worker(a, n, 'A'), wa_worker_group(a, n)) and rank_in_group(wa_inv_worker(a, n, 'G'), wa_worker_group(a, n)) "
         "and implies(my_rank() == wa_inv_worker(a, n, 'A') or my_rank() == wa_inv_worker(a, n, 'G'), wa_is_grad_worker(a, n)) "
         "and in_group(wa_receiver_group(a, n)) and rank_in_group(wa_src_grad_worker(a, n), wa_receiver_group(a, n)) "
         "and implies(wa_is_grad_worker(a, n), wa_src_grad_worker(a, n) == my_rank())")
