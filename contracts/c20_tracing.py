"""C20 — tracing is transparent and its statistics are exact."""
from pyvc.contracts import contract, spec_def
from pyvc.values import KInt, KReal, KBool, KDyn, KFn, KStr, KDict, KList

spec_def('window', ['times', 'h'], 'times[-h:] if (h is not None and len(times) > h) else times')
spec_def('stat', ['w', 'avg'], 'sum(w) / len(w) if avg else sum(w)')
spec_def('window_stat', ['times', 'avg', 'h'], 'stat(window(times, h), avg)')

NONEMPTY = ('stored_lists_nonempty', 'all(len(_func_traces[k]) > 0 for k in _func_traces)')

contract(
    'kfac.tracing:clear_trace', props=['C20'],
    ensures=[('emptied', 'len(_func_traces) == 0')],
    modifies=['global:_func_traces'],
)

contract(
    'kfac.tracing:get_trace', props=['C20'],
    params={'average': KBool, 'max_history': KDyn},
    result=KDict(KStr, KReal),
    locals={'out': KDict(KStr, KReal)},
    requires=[NONEMPTY,
              ('history_domain', 'max_history is None or (isinstance(max_history, int) and '
                                 'not isinstance(max_history, bool) and max_history >= 1)')],
    ensures=[
        ('same_size', 'len(result) == len(_func_traces)'),
        ('same_keys_in_order', 'all(key_at(result, j) == key_at(_func_traces, j) for j in range(len(_func_traces)))'),
        ('every_name_reported', 'all(k in result for k in _func_traces)'),
        ('exact_statistic',
         'all(result[k] == window_stat(_func_traces[k], average, max_history) for k in _func_traces)'),
        # reading a statistic is a query: the recorded samples are left as they were
        ('recorded_samples_untouched', 'same_dict(_func_traces, old(_func_traces))'),
    ],
    loops={'iter:_func_traces.items()': dict(index='i', invariants=[
        ('size', 'len(out) == i'),
        ('prefix', 'all(key_at(out, j) == key_at(_func_traces, j) and '
                   'out[key_at(_func_traces, j)] == window_stat(_func_traces[key_at(_func_traces, j)], average, max_history) '
                   'for j in range(i))'),
    ])},
    modifies=[],
    float_mode='U',
)

contract(
    'kfac.tracing:trace', props=['C20'],
    params={'sync': KBool}, result=KFn,
    ensures=[('closure', "is_closure(result, 'trace.decorator')"),
             ('captures_sync', "captured(result, 'sync') == sync")],
    modifies=[],
)
contract(
    'kfac.tracing:trace.decorator', props=['C20'],
    params={'func': KFn}, closure={'sync': KBool}, result=KFn,
    ensures=[('closure', "is_closure(result, 'trace.decorator.func_timer')"),
             ('captures_func', "captured(result, 'func') is func"),
             ('captures_sync', "captured(result, 'sync') == sync")],
    modifies=[],
)

NAME = 'func.__name__'
contract(
    'kfac.tracing:trace.decorator.func_timer', props=['C20'],
    closure={'func': KFn, 'sync': KBool}, result=KDyn,
    unknown_may_raise=True,
    requires=[NONEMPTY],
    raises=[('Exception', 'call_raises(func, args, kwargs)')],
    exsures=[('Exception', 'no_sample', 'same_dict(_func_traces, old(_func_traces))'),
             ('Exception', 'called_once', 'calls_made() == old(calls_made()) + 1')],
    ensures=[
        ('transparent_result', 'same(result, call(func, args, kwargs))'),
        ('called_once', 'calls_made() == old(calls_made()) + 1'),
        ('one_sample_appended',
         f'_func_traces[{NAME}] == (old(_func_traces)[{NAME}] if {NAME} in old(_func_traces) else []) '
         '+ [clock_at(old(clock_reads()) + 1) - clock_at(old(clock_reads()))]'),
        ('two_clock_reads', 'clock_reads() == old(clock_reads()) + 2'),
        ('other_names_untouched',
         f'all(k in _func_traces and _func_traces[k] == old(_func_traces)[k] for k in old(_func_traces) if k != {NAME})'),
        ('no_other_name_added',
         f'len(_func_traces) == len(old(_func_traces)) + (0 if {NAME} in old(_func_traces) else 1)'),
        NONEMPTY,
    ],
    modifies=['global:_func_traces', 'ghost:trace'],
    float_mode='U',
)
