"""Layer helpers (kfac/layers/utils.py, kfac/layers/modules.py): C15, C04, C01, C10."""
from pyvc.contracts import contract, lemma, spec_def
from pyvc.values import KInt, KReal, KBool, KDyn, KFn, KStr, KDict, KList, KRef, KTuple
from pyvc.tensors import KShape

T = KRef('Tensor')
NOT_NONE = lambda x: (f'{x}_present', f'{x} is not None')      # noqa: E731

# ------------------------------------------------------------------ utils
contract(
    'kfac.layers.utils:append_bias_ones', props=['C04', 'C15'],
    params={'tensor': T}, result=T,
    requires=[NOT_NONE('tensor'), ('has_last_dim', 'len(tensor.shape) >= 1')],
    ensures=[
        ('ones_appended_last', 'val(result) == hcat(val(tensor), full(list(tensor.shape[:-1]) + [1], 1.0))'),
        ('one_more_column', 'result.shape[len(result.shape) - 1] == tensor.shape[len(tensor.shape) - 1] + 1'),
        ('same_rank_and_leading_dims', 'len(result.shape) == len(tensor.shape) and '
                                       'all(result.shape[j] == tensor.shape[j] for j in range(len(tensor.shape) - 1))'),
        ('result_present', 'result is not None'),
        ('input_untouched', 'val(tensor) == old(val(tensor))'),
        ('result_fresh', 'result is not tensor and fresh_storage(result)'),
    ],
    modifies=[],
)

spec_def('cov_scale', ['a', 'scale'], 'a.shape[0] if scale is None else scale')
spec_def('cov_raw', ['a', 's'], 'mul(tr(val(a)), sdiv(val(a), s))')
contract(
    'kfac.layers.utils:get_cov', props=['C04'],
    params={'a': T, 'b': T, 'scale': KDyn}, result=T,
    requires=[NOT_NONE('a'), ('scale_type', 'scale is None or (isinstance(scale, (int, float)) and not isinstance(scale, bool))')],
    raises=[('ValueError', 'len(a.shape) != 2 or (b is not None and a.shape != b.shape)')],
    ensures=[
        # symmetrised second moment  ((a^T (a/s)) + (a^T (a/s))^T) / 2   with s = rows unless given
        ('second_moment', 'implies(b is None, val(result) == sdiv(add(cov_raw(a, cov_scale(a, scale)), '
                          'tr(cov_raw(a, cov_scale(a, scale)))), 2.0))'),
        ('cross_moment', 'implies(b is not None, val(result) == mul(tr(val(a)), sdiv(val(b), cov_scale(a, scale))))'),
        ('square_shape', 'implies(b is None, len(result.shape) == 2 and result.shape[0] == a.shape[1] and result.shape[1] == a.shape[1])'),
        ('inputs_untouched', 'val(a) == old(val(a))'),
        ('result_present', 'result is not None'),
    ],
    modifies=[],
)

# ------------------------------------------------------------------ ModuleHelper
MOD = [('module_present', 'self.module is not None'), ('weight_present', 'self.module.weight is not None'),
       ('distinct_parameters', 'self.module.bias is not self.module.weight')]
GRADS = MOD + [('weight_grad_present', 'self.module.weight.grad is not None'),
               ('bias_grad_present', 'implies(self.module.bias is not None, self.module.bias.grad is not None)')]

for cls in ('ModuleHelper',):
    contract(f'kfac.layers.modules:{cls}.has_bias', props=['C15', 'C01'], result=KBool, requires=MOD[:1],
             ensures=[('bias_present', 'result == (self.module.bias is not None)')], modifies=[])
    contract(f'kfac.layers.modules:{cls}.has_symmetric_factors', props=['C15', 'C01'], result=KBool,
             ensures=[('always', 'result')], modifies=[])
    contract(f'kfac.layers.modules:{cls}.get_weight_grad', props=['C15', 'C01'], result=T, requires=MOD,
             ensures=[('is_weight_grad', 'result is self.module.weight.grad')], modifies=[])
    contract(f'kfac.layers.modules:{cls}.get_bias_grad', props=['C15', 'C01'], result=T,
             requires=MOD[:1] + [('bias_present', 'self.module.bias is not None')],
             ensures=[('is_bias_grad', 'result is self.module.bias.grad')], modifies=[])

spec_def('bias_col', ['b'], 'view(val(b), b.shape, [infer_extent(numel(b.shape), 1), 1])')
# interface contract (dispatch target for a statically unknown helper; Conv2dModuleHelper overrides get_grad):
# the combined gradient is a function of the helper and of the current weight / bias gradients
contract(
    'kfac.layers.modules:ModuleHelper.get_grad', props=['C15', 'C01', 'C10'], result=T, requires=GRADS, trusted=True,
    ensures=[('present_2d', 'result is not None and len(result.shape) == 2'),
             ('function_of_module_gradients',
              'val(result) == combined_grad(self)'),
             ('grads_untouched', 'val(self.module.weight.grad) == old(val(self.module.weight.grad))'),
             ('same_dtype_device', 'result.dtype is self.module.weight.grad.dtype and result.device is self.module.weight.grad.device')],
    modifies=['ghost:next_sid'],
    note='combined_grad(h) names the matrix the concrete helper builds from the module gradients (formulas proved in #linear / Conv2d variants)',
)
contract(
    'kfac.layers.modules:ModuleHelper.get_grad#linear', props=['C15', 'C01', 'C10'], result=T, requires=GRADS,
    self_cls='LinearModuleHelper',
    ensures=[
        ('weight_then_bias_column',
         'val(result) == (hcat(val(self.module.weight.grad), bias_col(self.module.bias.grad)) '
         'if self.module.bias is not None else val(self.module.weight.grad))'),
        ('no_bias_is_the_weight_grad', 'implies(self.module.bias is None, result is self.module.weight.grad)'),
        ('result_present', 'result is not None'),
        # needs the definition of the layer's backward pass (trusted, torch autograd): bounded run-time check
        ('sum_of_outer_products[bounded]', 'outer_product_oracle(self)'),
        ('grads_untouched', 'val(self.module.weight.grad) == old(val(self.module.weight.grad))'),
    ],
    modifies=[],
)

contract(
    'kfac.layers.modules:ModuleHelper.set_grad', props=['C15', 'C01', 'C10'],
    params={'grad': T}, requires=GRADS + [NOT_NONE('grad'), ('grad_2d', 'len(grad.shape) == 2')],
    ensures=[
        ('weight_part', 'val(self.module.weight.grad) == (view(lcols(val(grad)), [grad.shape[0], grad.shape[1] - 1], old(self.module.weight.grad.shape)) '
                        'if self.module.bias is not None else view(val(grad), grad.shape, old(self.module.weight.grad.shape)))'),
        ('bias_part', 'implies(self.module.bias is not None, val(self.module.bias.grad) == '
                      'view(lastcol(val(grad)), [grad.shape[0], 1], old(self.module.bias.grad.shape)))'),
        ('weight_meta', 'self.module.weight.grad.shape == old(self.module.weight.grad.shape) and self.module.weight.grad.contig '
                        'and self.module.weight.grad.dtype is grad.dtype and self.module.weight.grad.device is grad.device'),
        ('bias_meta', 'implies(self.module.bias is not None, self.module.bias.grad.shape == old(self.module.bias.grad.shape) '
                      'and self.module.bias.grad.contig and self.module.bias.grad.dtype is grad.dtype)'),
        ('old_grad_storage_untouched', 'old(self.module.weight.grad).val == old(val(self.module.weight.grad))'),
        ('gradients_present', 'self.module.weight.grad is not None and implies(self.module.bias is not None, self.module.bias.grad is not None)'),
        ('new_gradient_objects', 'is_fresh(self.module.weight.grad) and implies(self.module.bias is not None, is_fresh(self.module.bias.grad))'),
    ],
    modifies=['self.module.weight.grad', 'self.module.bias.grad'],
)

# ------------------------------------------------------------------ LinearModuleHelper
NB = '(1 if self.module.bias is not None else 0)'
contract('kfac.layers.modules:LinearModuleHelper.a_factor_shape', props=['C15'], result=KTuple(KInt, KInt),
         requires=MOD + [('weight_2d', 'len(self.module.weight.shape) == 2')],
         ensures=[('in_features_plus_bias', f'result[0] == self.module.weight.shape[1] + {NB} and result[1] == result[0]')],
         modifies=[])
contract('kfac.layers.modules:LinearModuleHelper.g_factor_shape', props=['C15'], result=KTuple(KInt, KInt),
         requires=MOD + [('weight_2d', 'len(self.module.weight.shape) == 2')],
         ensures=[('out_features', 'result[0] == self.module.weight.shape[0] and result[1] == result[0]')],
         modifies=[])

spec_def('rows2d', ['a'], 'view(val(a), a.shape, [infer_extent(numel(a.shape), a.shape[len(a.shape) - 1]), a.shape[len(a.shape) - 1]])')
spec_def('nrows2d', ['a'], 'infer_extent(numel(a.shape), a.shape[len(a.shape) - 1])')
spec_def('sym_cov', ['X', 'n'], 'sdiv(add(mul(tr(X), sdiv(X, n)), tr(mul(tr(X), sdiv(X, n)))), 2.0)')
contract(
    'kfac.layers.modules:LinearModuleHelper.get_a_factor', props=['C15', 'C04'],
    params={'a': T}, result=T,
    requires=MOD + [NOT_NONE('a'), ('has_feature_dim', 'len(a.shape) >= 1')],
    ensures=[
        # rows = all leading dimensions flattened; ones column LAST; second moment over the rows
        ('bias_augmented_second_moment',
         'val(result) == (sym_cov(hcat(rows2d(a), full([nrows2d(a), 1], 1.0)), nrows2d(a)) if self.module.bias is not None '
         'else sym_cov(rows2d(a), nrows2d(a)))'),
        ('shape_as_advertised', f'len(result.shape) == 2 and result.shape[0] == a.shape[len(a.shape) - 1] + {NB} and result.shape[1] == result.shape[0]'),
    ],
    modifies=[],
)
contract(
    'kfac.layers.modules:LinearModuleHelper.get_g_factor', props=['C15', 'C04'],
    params={'g': T}, result=T,
    requires=[NOT_NONE('g'), ('has_feature_dim', 'len(g.shape) >= 1')],
    ensures=[('second_moment', 'val(result) == sym_cov(rows2d(g), nrows2d(g))'),
             ('shape', 'len(result.shape) == 2 and result.shape[0] == g.shape[len(g.shape) - 1] and result.shape[1] == result.shape[0]')],
    modifies=[],
)

# ------------------------------------------------------------------ Conv2dModuleHelper
CONV = MOD + [('weight_4d', 'len(self.module.weight.shape) == 4')]
contract('kfac.layers.modules:Conv2dModuleHelper.__init__', props=['C15'], params={'module': KRef('Module')},
         ensures=[('stores_module', 'self.module is module')], modifies=['self.module'])
contract('kfac.layers.modules:Conv2dModuleHelper.a_factor_shape', props=['C15'], result=KTuple(KInt, KInt), requires=MOD,
         ensures=[('patch_size_plus_bias',
                   f'result[0] == self.module.in_channels * self.module.kernel_size[0] * self.module.kernel_size[1] + {NB} '
                   'and result[1] == result[0]')],
         modifies=[])
contract('kfac.layers.modules:Conv2dModuleHelper.g_factor_shape', props=['C15'], result=KTuple(KInt, KInt), requires=MOD[:1],
         ensures=[('out_channels', 'result[0] == self.module.out_channels and result[1] == result[0]')], modifies=[])

# patch extraction = pad (width first!), unfold rows, unfold columns, move channel behind the spatial
# positions, flatten (channel, kernel row, kernel column) row-major -- the same order as weight.view(out, -1)
KH, KW = 'self.module.kernel_size[0]', 'self.module.kernel_size[1]'
SH, SW = 'self.module.stride[0]', 'self.module.stride[1]'
PH, PW = 'self.module.padding[0]', 'self.module.padding[1]'
spec_def('padded', ['x', 'ph', 'pw'], 'pad(val(x), pw, pw, ph, ph) if ph + pw > 0 else val(x)')
spec_def('out_extent', ['n', 'p', 'k', 's'], '(n + 2 * p - k) // s + 1')
spec_def('patch_shape6', ['x', 'kh', 'kw', 'sh', 'sw', 'ph', 'pw'],
         '[x.shape[0], out_extent(x.shape[2], ph if ph + pw > 0 else 0, kh, sh), out_extent(x.shape[3], pw if ph + pw > 0 else 0, kw, sw), x.shape[1], kh, kw]')
spec_def('patches6', ['x', 'kh', 'kw', 'sh', 'sw', 'ph', 'pw'],
         'transpose(transpose(unfold(unfold(padded(x, ph, pw), 2, kh, sh), 3, kw, sw), 1, 2), 2, 3)')
spec_def('conv_patches', ['x', 'kh', 'kw', 'sh', 'sw', 'ph', 'pw'],
         'view(patches6(x, kh, kw, sh, sw, ph, pw), patch_shape6(x, kh, kw, sh, sw, ph, pw), '
         '[patch_shape6(x, kh, kw, sh, sw, ph, pw)[0], patch_shape6(x, kh, kw, sh, sw, ph, pw)[1], '
         'patch_shape6(x, kh, kw, sh, sw, ph, pw)[2], x.shape[1] * kh * kw])')
ARGS6_ = f'{KH}, {KW}, {SH}, {SW}, {PH}, {PW}'
GEOM = [('geometry', f'{KH} >= 1 and {KW} >= 1 and {SH} >= 1 and {SW} >= 1 and {PH} >= 0 and {PW} >= 0')]
contract(
    'kfac.layers.modules:Conv2dModuleHelper._extract_patches', props=['C15', 'C04', 'C10'],
    params={'x': T}, result=T,
    requires=MOD[:1] + GEOM + [NOT_NONE('x'), ('input_4d', 'len(x.shape) == 4')],
    ranks={'x': 4},
    ensures=[
        ('layout', f'val(result) == conv_patches(x, {KH}, {KW}, {SH}, {SW}, {PH}, {PW})'),
        ('shape', f'len(result.shape) == 4 and result.shape[0] == x.shape[0] and result.shape[3] == x.shape[1] * {KH} * {KW}'),
        ('shape_exact', f'shape_is(result, [patch_shape6(x, {ARGS6_})[0], patch_shape6(x, {ARGS6_})[1], patch_shape6(x, {ARGS6_})[2], x.shape[1] * {KH} * {KW}])'),
        ('input_untouched', 'val(x) == old(val(x)) and x.shape == old(x.shape)'),
        ('result_present', 'result is not None'),
    ],
    modifies=[],
)
contract(
    'kfac.layers.modules:Conv2dModuleHelper.get_grad', props=['C15', 'C01', 'C10'], result=T, requires=GRADS + [('weight_grad_4d', 'len(self.module.weight.grad.shape) == 4')],
    ensures=[
        ('weight_rows_then_bias_column',
         'val(result) == (hcat(view(val(self.module.weight.grad), self.module.weight.grad.shape, '
         '[self.module.weight.grad.shape[0], infer_extent(numel(self.module.weight.grad.shape), self.module.weight.grad.shape[0])]), '
         'bias_col(self.module.bias.grad)) if self.module.bias is not None else '
         'view(val(self.module.weight.grad), self.module.weight.grad.shape, '
         '[self.module.weight.grad.shape[0], infer_extent(numel(self.module.weight.grad.shape), self.module.weight.grad.shape[0])]))'),
        ('one_row_per_output_unit', 'len(result.shape) == 2 and result.shape[0] == self.module.weight.grad.shape[0]'),
        ('result_present', 'result is not None'),
        ('sum_of_outer_products_and_unfold_agreement[bounded]', 'outer_product_oracle(self)'),
        ('grads_untouched', 'val(self.module.weight.grad) == old(val(self.module.weight.grad))'),
    ],
    modifies=[],
)

ARGS6 = f'{KH}, {KW}, {SH}, {SW}, {PH}, {PW}'
spec_def('patch_shape4', ['x', 'kh', 'kw', 'sh', 'sw', 'ph', 'pw'], '[patch_shape6(x, kh, kw, sh, sw, ph, pw)[0], patch_shape6(x, kh, kw, sh, sw, ph, pw)[1], patch_shape6(x, kh, kw, sh, sw, ph, pw)[2], x.shape[1] * kh * kw]')
spec_def('conv_nrows', ['x', 'kh', 'kw', 'sh', 'sw', 'ph', 'pw'],
         'infer_extent(numel(patch_shape4(x, kh, kw, sh, sw, ph, pw)), x.shape[1] * kh * kw)')
spec_def('conv_spatial', ['x', 'kh', 'kw', 'sh', 'sw', 'ph', 'pw'], 'patch_shape6(x, kh, kw, sh, sw, ph, pw)[1] * patch_shape6(x, kh, kw, sh, sw, ph, pw)[2]')
spec_def('conv_rows', ['x', 'kh', 'kw', 'sh', 'sw', 'ph', 'pw'],
         'view(conv_patches(x, kh, kw, sh, sw, ph, pw), patch_shape4(x, kh, kw, sh, sw, ph, pw), '
         '[conv_nrows(x, kh, kw, sh, sw, ph, pw), x.shape[1] * kh * kw])')
contract(
    'kfac.layers.modules:Conv2dModuleHelper.get_a_factor', props=['C15', 'C04'],
    params={'a': T}, result=T,
    requires=MOD + GEOM + [NOT_NONE('a'), ('input_4d', 'len(a.shape) == 4')],
    ranks={'a': 4},
    ensures=[
        ('shape_as_advertised', f'len(result.shape) == 2 and result.shape[0] == a.shape[1] * {KH} * {KW} + {NB} and result.shape[1] == result.shape[0]'),
        # patch rows, ones column LAST, divided by the number of output positions, second moment over all rows
        ('spatially_normalised_second_moment',
         f'val(result) == (sym_cov(sdiv(hcat(conv_rows(a, {ARGS6}), full([conv_nrows(a, {ARGS6}), 1], 1.0)), conv_spatial(a, {ARGS6})), conv_nrows(a, {ARGS6})) '
         f'if self.module.bias is not None else sym_cov(sdiv(conv_rows(a, {ARGS6}), conv_spatial(a, {ARGS6})), conv_nrows(a, {ARGS6})))'),
        ('result_present', 'result is not None'),
        ('input_untouched', 'val(a) == old(val(a))'),
    ],
    modifies=[],
)
contract(
    'kfac.layers.modules:Conv2dModuleHelper.get_g_factor', props=['C15', 'C04'],
    params={'g': T}, result=T,
    requires=[NOT_NONE('g'), ('grad_output_4d', 'len(g.shape) == 4')],
    ranks={'g': 4},
    ensures=[
        # channel-last rows, divided by the number of output positions, then the second moment over rows
        ('spatially_normalised_second_moment',
         'val(result) == sym_cov(sdiv(view(transpose(transpose(val(g), 1, 2), 2, 3), [g.shape[0], g.shape[2], g.shape[3], g.shape[1]], '
         '[infer_extent(numel([g.shape[0], g.shape[2], g.shape[3], g.shape[1]]), g.shape[1]), g.shape[1]]), g.shape[2] * g.shape[3]), '
         'infer_extent(numel([g.shape[0], g.shape[2], g.shape[3], g.shape[1]]), g.shape[1]))'),
        ('shape', 'len(result.shape) == 2 and result.shape[0] == g.shape[1] and result.shape[1] == result.shape[0]'),
        ('result_present', 'result is not None'),
    ],
    modifies=[],
)

# ------------------------------------------------------------------ C15 lemmas over the contracts above
from pyvc.tensors import KMat   # noqa: E402
lemma('kfac.layers.modules:ModuleHelper.set_grad', 'write_then_read_is_identity', props=['C15'],
      vars={'G': KMat, 'o': KInt, 'i': KInt, 'ws': KShape, 'bs': KShape},
      hyps=['i >= 1'],
      # get_grad after set_grad(G):  hcat(view(view(lcols(G), [o,i], ws), ws, [o,i]), view(view(lastcol(G), [o,1], bs), bs, [o,1]))
      goal='hcat(view(view(lcols(G), [o, i], ws), ws, [o, i]), view(view(lastcol(G), [o, 1], bs), bs, [o, 1])) == G',
      theory=['blocks', 'view'],
      text='get_grad(set_grad(G)) == G for the combined (weight | bias) layout')
lemma('kfac.layers.modules:ModuleHelper.set_grad', 'read_then_write_is_identity', props=['C15'],
      vars={'W': KMat, 'b': KMat, 'o': KInt, 'i': KInt, 'ws': KShape, 'bs': KShape},
      hyps=['onecol(view(b, bs, [o, 1]))'],
      # set_grad(get_grad()): weight' = view(lcols(hcat(view(W, ws, [o,i]), bcol)), [o,i], ws) == W ; bias likewise
      goal='view(lcols(hcat(view(W, ws, [o, i]), view(b, bs, [o, 1]))), [o, i], ws) == W and '
           'view(lastcol(hcat(view(W, ws, [o, i]), view(b, bs, [o, 1]))), [o, 1], bs) == b',
      theory=['blocks', 'view'],
      text='set_grad(get_grad()) leaves weight and bias gradients unchanged')
