"""KFACInverseLayer / KFACEigenLayer (kfac/layers/inverse.py, eigen.py): C01, C13, C09, C03, C10."""
from pyvc.contracts import contract, lemma, spec_def
from pyvc.values import KInt, KReal, KBool, KDyn, KFn, KStr, KDict, KList, KRef, KTuple
from pyvc.tensors import KShape, KDType, KDevice, KMat
from contracts.c04_layers import GRADS, PENDING, STATE0

T = KRef('Tensor')
G = KRef('ProcessGroup')
INIT_PARAMS = {'module': KRef('ModuleHelper'), 'tdc': KRef('TorchDistributedCommunicator'),
               'allreduce_method': KRef('AllreduceMethod'), 'factor_dtype': KDType, 'grad_scaler': KDyn,
               'inv_dtype': KDType, 'symmetry_aware': KBool}
BASE_FIELDS = ['self.module', 'self.tdc', 'self.allreduce_method', 'self.factor_dtype', 'self.grad_scaler', 'self.inv_dtype',
               'self.symmetry_aware', 'self.eps', 'self.symmetric_factors', 'self._a_batch', 'self._g_batch', 'self._a_count',
               'self._g_count', 'self._a_factor', 'self._g_factor', 'self._grad']
INIT_REQ = [('module_present', 'module is not None and module.module is not None'),
            ('scaler_is_callable_or_none', 'grad_scaler is None or callable(grad_scaler)')]
DAMP = [('damping_is_number', 'isinstance(damping, (int, float)) and not isinstance(damping, bool)')]

# ================================================================== inverse method
I = 'kfac.layers.inverse:KFACInverseLayer'
contract(f'{I}.__init__', props=['C05', 'C13'], params=INIT_PARAMS, requires=INIT_REQ,
         ensures=[('no_second_order_data', 'self._a_inv is None and self._g_inv is None'), ('initial_state_empty', STATE0),
                  ('config', 'self.module is module and self.tdc is tdc and self.inv_dtype is inv_dtype and self.symmetric_factors')],
         modifies=BASE_FIELDS + ['self._a_inv', 'self._g_inv'])

# damped inverse  inv(X + damping * I)  written with the operations of the code: X + diag(full([n], damping))
spec_def('damped', ['X', 'n', 'lam'], 'add(X, diag(full([n], lam)))')
for X in ('a', 'g'):
    contract(
        f'{I}.compute_{X}_inv', props=['C01', 'C09', 'C13'], params={'damping': KDyn},
        requires=DAMP + PENDING(f'_{X}_factor') + [('factor_2d', f'implies(self._{X}_factor is not None, len(awaited(self._{X}_factor).shape) == 2)')],
        raises=[('RuntimeError', f'self._{X}_factor is None')],
        ensures=[
            ('damped_inverse', f'is_tensor(self._{X}_inv) and val(self._{X}_inv) == '
                               f'inv(damped(old(val(awaited(self._{X}_factor))), old(awaited(self._{X}_factor).shape[0]), damping))'),
            ('stored_in_inverse_dtype', f'implies(self.inv_dtype is not None, self._{X}_inv.dtype is self.inv_dtype)'),
            ('same_shape', f'self._{X}_inv.shape == old(awaited(self._{X}_factor).shape)'),
            ('factor_untouched', f'val(awaited(self._{X}_factor)) == old(val(awaited(self._{X}_factor))) and '
                                 f'awaited(self._{X}_factor) is old(awaited(self._{X}_factor))'),
        ],
        modifies=[f'self._{X}_inv', f'self._{X}_factor', '*.resolved', 'ghost:next_sid'],
        ghost_sets=[(f'self.gh_{X}_from', f'awaited(self._{X}_factor)'), (f'self.gh_{X}_damping', 'damping')],
    )
    contract(
        f'{I}.broadcast_{X}_inv', props=['C02', 'C03', 'C09', 'C13'], params={'src': KInt, 'group': G},
        requires=PENDING(f'_{X}_inv') + PENDING(f'_{X}_factor') + [
            ('member_of_group', 'in_group(group)'), ('root_is_member', 'rank_in_group(src, group)'), ('tdc_present', 'self.tdc is not None'),
            ('inverse_square', f'implies(self._{X}_inv is not None, is_square(awaited(self._{X}_inv).shape))'),
            ('factor_square', f'implies(self._{X}_factor is not None, is_square(awaited(self._{X}_factor).shape))')],
        raises=[('RuntimeError', f'self._{X}_inv is None and my_rank() == src'),
                # a receiver sizes its buffer from its own copy of the factor
                ('AssertionError', f'self._{X}_inv is None and my_rank() != src and self._{X}_factor is None')],
        ensures=[
            ('holds_inverse', f'self._{X}_inv is not None'),
            ('root_keeps_value', f'implies(my_rank() == src and not (self.symmetric_factors and self.symmetry_aware), '
                                 f'val(awaited(self._{X}_inv)) == old(val(awaited(self._{X}_inv))))'),
            ('receive_buffer_matches_sender', f'implies(old(self._{X}_inv) is None, awaited(self._{X}_inv).shape == old(awaited(self._{X}_factor).shape) '
                                              f'and awaited(self._{X}_inv).dtype is self.inv_dtype)'),
            ('alone_nothing_sent', 'implies(group_size(group) == 1, trace() == old(trace()))'),
            ('one_broadcast_otherwise', 'implies(group_size(group) != 1, len(trace()) == len(old(trace())) + 1)'),
            # C13: symmetry-aware mode sends the packed triangle of the (symmetric) inverse
            ('elements_sent', f'implies(group_size(group) != 1, trace()[len(trace()) - 1][3] == '
                              f'sent_numel(old(awaited(self._{X}_inv).shape) if old(self._{X}_inv) is not None else old(awaited(self._{X}_factor).shape), '
                              f'self.symmetric_factors and self.symmetry_aware))'),
            ('stays_square', f'is_square(awaited(self._{X}_inv).shape)'),
            ('factor_kept', f'awaited(self._{X}_factor) is old(awaited(self._{X}_factor))'),
        ],
        modifies=[f'self._{X}_inv', f'self._{X}_factor', '*.resolved', '*.val', 'ghost:trace', 'ghost:next_sid'],
    )

contract(
    f'{I}.preconditioned_grad', props=['C01', 'C10', 'C03'], params={'damping': KDyn},
    requires=GRADS + PENDING('_a_inv') + PENDING('_g_inv') + DAMP,
    raises=[('RuntimeError', 'self._a_inv is None or self._g_inv is None')],
    ensures=[
        # V = G^-1 D A^-1 with the damped inverses held at this moment (damping baked in at refresh time)
        ('kronecker_solve', 'is_tensor(self._grad) and val(self._grad) == '
                            'mul(mul(old(val(awaited(self._g_inv))), old(combined_grad(self.module))), old(val(awaited(self._a_inv))))'),
        ('gradient_dtype_restored', 'self._grad.dtype is old(self.module.module.weight.grad.dtype)'),
        ('result_is_its_own_tensor', 'is_fresh(self._grad) and len(self._grad.shape) == 2'),
        ('module_gradients_untouched', 'val(self.module.module.weight.grad) == old(val(self.module.module.weight.grad)) and '
                                       'self.module.module.weight.grad is old(self.module.module.weight.grad)'),
        ('inverses_untouched', 'val(awaited(self._a_inv)) == old(val(awaited(self._a_inv))) and val(awaited(self._g_inv)) == old(val(awaited(self._g_inv))) '
                               'and awaited(self._a_inv) is old(awaited(self._a_inv)) and awaited(self._g_inv) is old(awaited(self._g_inv))'),
    ],
    modifies=['self._grad', 'self._a_inv', 'self._g_inv', '*.resolved', 'ghost:next_sid'],
    ghost_sets=[('self.gh_pg_damping', 'damping')],      # which damping this preconditioning was asked to use
)
contract(
    f'{I}.memory_usage', props=['C13'], result=KDict(KStr, KInt),
    requires=PENDING('_a_factor') + PENDING('_g_factor') + PENDING('_a_inv') + PENDING('_g_inv'),
    ensures=[('six_entries', "len(result) == 6 and key_at(result, 0) == 'a_factors' and key_at(result, 1) == 'g_factors' and key_at(result, 2) == 'a_batch' "
                             "and key_at(result, 3) == 'g_batch' and key_at(result, 4) == 'a_inverses' and key_at(result, 5) == 'g_inverses'"),
             ('inverse_bytes', "result['a_inverses'] == bytes_of(old(awaited(self._a_inv))) and result['g_inverses'] == bytes_of(old(awaited(self._g_inv)))"),
             ('factor_bytes', "result['a_factors'] == bytes_of(old(awaited(self._a_factor))) and result['g_factors'] == bytes_of(old(awaited(self._g_factor))) "
                              "and result['a_batch'] == bytes_of(self._a_batch) and result['g_batch'] == bytes_of(self._g_batch)"),
             ('tensors_kept', ' and '.join(f'awaited(self.{f}) is old(awaited(self.{f}))' for f in ('_a_factor', '_g_factor', '_a_inv', '_g_inv')))],
    modifies=['self._a_factor', 'self._g_factor', 'self._a_inv', 'self._g_inv', '*.resolved'], theories=['opaque_nonlinear'],
)

# C01 (inverse method): the formula proved above solves the damped Kronecker system
lemma(f'{I}.preconditioned_grad', 'solves_damped_kronecker_system', props=['C01'],
      vars={'A': KMat, 'Gm': KMat, 'D': KMat, 'na': KInt, 'ng': KInt, 'lam': KReal},
      hyps=['invertible(damped(A, na, lam))', 'invertible(damped(Gm, ng, lam))'],
      goal='mul(mul(damped(Gm, ng, lam), mul(mul(inv(damped(Gm, ng, lam)), D), inv(damped(A, na, lam)))), damped(A, na, lam)) == D',
      theory=['ring'],
      text='(G + lam I) V (A + lam I) = D for V = (G + lam I)^-1 D (A + lam I)^-1')

# ================================================================== eigen method
E = 'kfac.layers.eigen:KFACEigenLayer'
EFIELDS = ['self.prediv_eigenvalues', 'self._qa', 'self._qg', 'self._da', 'self._dg', 'self._dgda']
contract(f'{E}.__init__', props=['C05', 'C13'], params=dict(INIT_PARAMS, prediv_eigenvalues=KBool), requires=INIT_REQ,
         ensures=[('no_second_order_data', 'self._qa is None and self._qg is None and self._da is None and self._dg is None and self._dgda is None'),
                  ('initial_state_empty', STATE0),
                  ('config', 'self.module is module and self.tdc is tdc and self.inv_dtype is inv_dtype and self.symmetric_factors '
                             'and self.prediv_eigenvalues == prediv_eigenvalues')],
         modifies=BASE_FIELDS + EFIELDS)

SO = ['_qa', '_qg', '_da', '_dg', '_dgda']
SO_PENDING = sum([PENDING(f) for f in SO], [])
SYM = [('symmetric_helper', 'self.symmetric_factors')]
contract(
    f'{E}.compute_a_inv', props=['C01', 'C09', 'C13'], params={'damping': KDyn},
    requires=DAMP + SYM + PENDING('_a_factor') + [('factor_2d', 'implies(self._a_factor is not None, len(awaited(self._a_factor).shape) == 2)')],
    raises=[('RuntimeError', 'self._a_factor is None')],
    ensures=[
        ('eigenvectors', 'is_tensor(self._qa) and val(self._qa) == eigvecs(old(val(awaited(self._a_factor))))'),
        ('clamped_eigenvalues', 'is_tensor(self._da) and val(self._da) == clampmin(eigvals(old(val(awaited(self._a_factor)))), 0.0)'),
        ('stored_in_inverse_dtype', 'implies(self.inv_dtype is not None, self._qa.dtype is self.inv_dtype and self._da.dtype is self.inv_dtype)'),
        ('shapes', 'self._qa.shape == old(awaited(self._a_factor).shape) and len(self._da.shape) == 1 and self._da.shape[0] == old(awaited(self._a_factor).shape[0])'),
        ('distinct_new_tensors', 'self._qa is not self._da and is_fresh(self._qa) and is_fresh(self._da)'),
        ('factor_untouched', 'val(awaited(self._a_factor)) == old(val(awaited(self._a_factor))) and awaited(self._a_factor) is old(awaited(self._a_factor))'),
    ],
    modifies=['self._qa', 'self._da', 'self._a_factor', '*.resolved', 'ghost:next_sid'],
    ghost_sets=[('self.gh_a_from', 'awaited(self._a_factor)'), ('self.gh_a_damping', 'damping')],
)
contract(
    f'{E}.compute_g_inv', props=['C01', 'C09', 'C13'], params={'damping': KDyn},
    requires=DAMP + SYM + PENDING('_g_factor') + PENDING('_da') + [
        ('factor_2d', 'implies(self._g_factor is not None, len(awaited(self._g_factor).shape) == 2)'),
        ('a_eigenvalues_1d', 'implies(self._da is not None, len(awaited(self._da).shape) == 1)')],
    raises=[('RuntimeError', 'self._g_factor is None'),
            # the code asserts that A's eigenvalues are already on this rank (computed or received)
            ('AssertionError', 'self._g_factor is not None and self._da is None')],
    lets={'dgv': 'clampmin(eigvals(old(val(awaited(self._g_factor)))), 0.0)'},
    ensures=[
        ('eigenvectors', 'is_tensor(self._qg) and val(self._qg) == eigvecs(old(val(awaited(self._g_factor))))'),
        ('clamped_eigenvalues', 'implies(not self.prediv_eigenvalues, is_tensor(self._dg) and val(self._dg) == dgv and self._da is old(awaited(self._da)))'),
        # pre-division bakes the damping of THIS refresh into 1 / (dg (x) da + damping)
        ('predivided', 'implies(self.prediv_eigenvalues, is_tensor(self._dgda) and self._dg is None and self._da is None and '
                       'val(self._dgda) == rdiv(1, sadd(outer(dgv, old(val(awaited(self._da)))), damping)))'),
        ('factor_untouched', 'val(awaited(self._g_factor)) == old(val(awaited(self._g_factor))) and awaited(self._g_factor) is old(awaited(self._g_factor))'),
        ('fresh_qg', 'is_fresh(self._qg)'),
        ('fresh_dg', 'implies(self._dg is not None, is_fresh(self._dg))'),
        ('distinct_dg', 'implies(self._dg is not None, self._dg is not self._qg)'),
        ('fresh_dgda', 'implies(self.prediv_eigenvalues, is_fresh(self._dgda) and self._dgda is not self._qg)'),
        ('a_data_kept', 'implies(not self.prediv_eigenvalues, awaited(self._da) is old(awaited(self._da))) and implies(self._da is not None, len(awaited(self._da).shape) == 1)'),
    ],
    modifies=['self._qg', 'self._dg', 'self._da', 'self._dgda', 'self._g_factor', '*.resolved', 'ghost:next_sid'],
    ghost_sets=[('self.gh_g_from', 'awaited(self._g_factor)'), ('self.gh_g_damping', 'damping')],
)
contract(
    f'{E}.preconditioned_grad', props=['C01', 'C10', 'C03'], params={'damping': KDyn},
    requires=GRADS + SO_PENDING + DAMP,
    raises=[('RuntimeError', 'self._qa is None or self._qg is None or (not self.prediv_eigenvalues and self._da is None) '
                             'or (not self.prediv_eigenvalues and self._dg is None) or (self.prediv_eigenvalues and self._dgda is None)')],
    lets={'Qa': 'old(val(awaited(self._qa)))', 'Qg': 'old(val(awaited(self._qg)))',
          'v1': 'mul(mul(tr(Qg), old(combined_grad(self.module))), Qa)',
          'v2': '(hmul(v1, old(val(awaited(self._dgda)))) if self.prediv_eigenvalues else '
                'hdiv(v1, sadd(outer(old(val(awaited(self._dg))), old(val(awaited(self._da)))), damping)))'},
    ensures=[
        ('eigenbasis_solve', 'is_tensor(self._grad) and val(self._grad) == mul(mul(Qg, v2), tr(Qa))'),
        ('second_order_data_kept', ' and '.join(f'awaited(self.{f}) is old(awaited(self.{f}))' for f in SO)),
        ('gradient_dtype_restored', 'self._grad.dtype is old(self.module.module.weight.grad.dtype)'),
        ('result_is_its_own_tensor', 'is_fresh(self._grad) and len(self._grad.shape) == 2'),
        ('module_gradients_untouched', 'val(self.module.module.weight.grad) == old(val(self.module.module.weight.grad)) and '
                                       'self.module.module.weight.grad is old(self.module.module.weight.grad)'),
    ],
    modifies=['self._grad'] + [f'self.{f}' for f in SO] + ['*.resolved', 'ghost:next_sid'],
    ghost_sets=[('self.gh_pg_damping', 'damping')],
)
contract(
    f'{E}.memory_usage', props=['C13'], result=KDict(KStr, KInt),
    requires=PENDING('_a_factor') + PENDING('_g_factor') + SO_PENDING,
    ensures=[('six_entries', "len(result) == 6 and key_at(result, 0) == 'a_factors' and key_at(result, 1) == 'g_factors' and key_at(result, 2) == 'a_batch' "
                             "and key_at(result, 3) == 'g_batch' and key_at(result, 4) == 'a_inverses' and key_at(result, 5) == 'g_inverses'"),
             ('second_order_bytes', "result['a_inverses'] == bytes_of(old(awaited(self._qa))) + bytes_of(old(awaited(self._da))) and "
                                    "result['g_inverses'] == bytes_of(old(awaited(self._qg))) + bytes_of(old(awaited(self._dg))) + bytes_of(old(awaited(self._dgda)))"),
             ('factor_bytes', "result['a_factors'] == bytes_of(old(awaited(self._a_factor))) and result['g_factors'] == bytes_of(old(awaited(self._g_factor))) "
                              "and result['a_batch'] == bytes_of(self._a_batch) and result['g_batch'] == bytes_of(self._g_batch)"),
             ('tensors_kept', ' and '.join(f'awaited(self.{f}) is old(awaited(self.{f}))' for f in ['_a_factor', '_g_factor'] + SO))],
    modifies=['self._a_factor', 'self._g_factor'] + [f'self.{f}' for f in SO] + ['*.resolved'], theories=['opaque_nonlinear'],
)

BC_REQ = [('member_of_group', 'in_group(group)'), ('root_is_member', 'rank_in_group(src, group)'), ('tdc_present', 'self.tdc is not None')]
contract(
    f'{E}.broadcast_a_inv', props=['C02', 'C03', 'C09', 'C13'], params={'src': KInt, 'group': G},
    requires=BC_REQ + PENDING('_qa') + PENDING('_da') + PENDING('_a_factor') + [

        ('factor_2d', 'implies(self._a_factor is not None, len(awaited(self._a_factor).shape) == 2)'),
        ('eigenvalues_1d', 'implies(self._da is not None, len(awaited(self._da).shape) == 1)')],
    raises=[('RuntimeError', '(self._qa is None or (not self.prediv_eigenvalues and self._da is None)) and my_rank() == src'),
            ('AssertionError', '(self._qa is None or (not self.prediv_eigenvalues and self._da is None)) and my_rank() != src and self._a_factor is None')],
    ensures=[
        ('holds_eigenvectors', 'self._qa is not None and implies(not self.prediv_eigenvalues, self._da is not None)'),

        ('receive_buffers_match_sender', 'implies(old(self._qa) is None, awaited(self._qa).shape == old(awaited(self._a_factor).shape) and awaited(self._qa).dtype is self.inv_dtype)'),

        ('still_1d', 'implies(self._da is not None, len(awaited(self._da).shape) == 1)'),
        ('factor_kept', 'awaited(self._a_factor) is old(awaited(self._a_factor))'),
        ('alone_nothing_sent', 'implies(group_size(group) == 1, trace() == old(trace()))'),
        ('events', 'implies(group_size(group) != 1, len(trace()) == len(old(trace())) + (1 if self.prediv_eigenvalues else 2))'),
    ],
    modifies=['self._qa', 'self._da', 'self._a_factor', '*.resolved', '*.val', 'ghost:trace', 'ghost:next_sid'],
)
MISSING_G = ('(self._qg is None or (not self.prediv_eigenvalues and self._dg is None) or (self.prediv_eigenvalues and self._dgda is None))')
contract(
    f'{E}.broadcast_g_inv', props=['C02', 'C03', 'C09', 'C13'], params={'src': KInt, 'group': G},
    requires=BC_REQ + PENDING('_qg') + PENDING('_dg') + PENDING('_dgda') + PENDING('_g_factor') + PENDING('_a_factor') + [

        ('factors_2d', 'implies(self._g_factor is not None, len(awaited(self._g_factor).shape) == 2) and '
                       'implies(self._a_factor is not None, len(awaited(self._a_factor).shape) == 2)')],
    raises=[('RuntimeError', f'{MISSING_G} and my_rank() == src'),
            ('AssertionError', f'{MISSING_G} and my_rank() != src and (self._g_factor is None or (self.prediv_eigenvalues and self._a_factor is None))')],
    ensures=[
        ('holds_data', 'self._qg is not None and implies(not self.prediv_eigenvalues, self._dg is not None) and implies(self.prediv_eigenvalues, self._dgda is not None)'),

        ('factors_kept', 'awaited(self._g_factor) is old(awaited(self._g_factor)) and awaited(self._a_factor) is old(awaited(self._a_factor))'),

        ('alone_nothing_sent', 'implies(group_size(group) == 1, trace() == old(trace()))'),
        ('events', 'implies(group_size(group) != 1, len(trace()) == len(old(trace())) + 2)'),
    ],
    modifies=['self._qg', 'self._dg', 'self._dgda', 'self._g_factor', 'self._a_factor', '*.resolved', '*.val', 'ghost:trace', 'ghost:next_sid'],
)

# C01 (eigen method): with A+ = Qa diag(da) Qa^T, G+ = Qg diag(dg) Qg^T (Q orthogonal, eigenvalues clamped >= 0),
# the formula proved for preconditioned_grad solves  G+ V A+ + lam V = D.   Calc-style steps keep E-matching cheap.
EIG_LETS = {
    'v1': 'mul(mul(tr(Qg), D), Qa)',
    'v2': 'hdiv(v1, sadd(outer(dg, da), lam))',
    'V': 'mul(mul(Qg, v2), tr(Qa))',
    'Gp': 'mul(mul(Qg, diag(dg)), tr(Qg))',
    'Ap': 'mul(mul(Qa, diag(da)), tr(Qa))',
    'core': 'mul(mul(diag(dg), v2), diag(da))',
}
lemma(f'{E}.preconditioned_grad', 'solves_damped_eigen_system', props=['C01'],
      vars={'Qa': KMat, 'Qg': KMat, 'da': KMat, 'dg': KMat, 'D': KMat, 'lam': KReal},
      hyps=['mul(tr(Qa), Qa) == eye()', 'mul(Qa, tr(Qa)) == eye()', 'mul(tr(Qg), Qg) == eye()', 'mul(Qg, tr(Qg)) == eye()',
            'nonneg(da)', 'nonneg(dg)', 'lam > 0'],
      lets=EIG_LETS,
      steps=[('left', 'mul(Gp, V) == mul(mul(Qg, mul(diag(dg), v2)), tr(Qa))'),
             ('both', 'mul(mul(Gp, V), Ap) == mul(mul(Qg, core), tr(Qa))'),
             ('scaled', 'smul(lam, V) == mul(mul(Qg, smul(lam, v2)), tr(Qa))'),
             ('sum', 'add(mul(mul(Gp, V), Ap), smul(lam, V)) == mul(mul(Qg, add(core, smul(lam, v2))), tr(Qa))'),
             ('hadamard', 'add(core, smul(lam, v2)) == v1'),
             ('back', 'mul(mul(Qg, v1), tr(Qa)) == D')],
      goal='add(mul(mul(Gp, V), Ap), smul(lam, V)) == D',
      theory=['ring', 'hadamard'],
      text='G+ V A+ + lam V = D for V = Qg ((Qg^T D Qa) ./ (dg da^T + lam)) Qa^T')
lemma(f'{E}.preconditioned_grad', 'predivision_is_division', props=['C01'],
      vars={'v1': KMat, 'da': KMat, 'dg': KMat, 'lam': KReal},
      goal='hmul(v1, rdiv(1, sadd(outer(dg, da), lam))) == hdiv(v1, sadd(outer(dg, da), lam))',
      theory=['hadamard'],
      text='with pre-divided eigenvalue products (damping baked in at refresh) the same V is obtained')
