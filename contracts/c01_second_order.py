"""KFACInverseLayer / KFACEigenLayer (kfac/layers/inverse.py, eigen.py): C01, C13, C09, C03, C10."""
from pyvc.contracts import contract, lemma, spec_def
from pyvc.values import KInt, KReal, KBool, KDyn, KFn, KStr, KDict, KList, KRef, KTuple
from pyvc.tensors import KShape, KDType, KDevice, KMat
from contracts.c04_layers import GRADS, PENDING, STATE0

T = KRef('Tensor')
G = KRef('ProcessGroup')
INIT_PARAMS = {'module': KRef('ModuleHelper'), 'tdc': KRef('TorchDistributedCommunicator'),
               'allreduce_method': KRef('AllreduceMethod'), 'factor_dtype': KDType, 'grad_scaler': KDyn,
               'inv_dtype': KDType, 'symmetry_aware': KBool}
BASE_FIELDS = ['self.module', 'self.tdc', 'self.allreduce_method', 'self.factor_dtype', 'self.grad_scaler', 'self.inv_dtype',
               'self.symmetry_aware', 'self.eps', 'self.symmetric_factors', 'self._a_batch', 'self._g_batch', 'self._a_count',
               'self._g_count', 'self._a_factor', 'self._g_factor', 'self._grad']
INIT_REQ = [('module_present', 'module is not None and module.module is not None'),
            ('scaler_is_callable_or_none', 'grad_scaler is None or callable(grad_scaler)')]
DAMP = [('damping_is_number', 'isinstance(damping, (int, float)) and not isinstance(damping, bool)')]

# ================================================================== inverse method
I = 'kfac.layers.inverse:KFACInverseLayer'
contract(f'{I}.__init__', props=['C05', 'C13'], params=INIT_PARAMS, requires=INIT_REQ,
         ensures=[('no_second_order_data', 'self._a_inv is None and self._g_inv is None'), ('initial_state_empty', STATE0),
                  ('config', 'self.module is module and self.tdc is tdc and self.inv_dtype is inv_dtype and self.symmetric_factors')],
         modifies=BASE_FIELDS + ['self._a_inv', 'self._g_inv'])

# damped inverse  inv(X + damping * I)  written with the operations of the code: X + diag(full([n], damping))
spec_def('damped', ['X', 'n', 'lam'], 'add(X, diag(full([n], lam)))')
for X in ('a', 'g'):
    contract(
        f'{I}.compute_{X}_inv', props=['C01', 'C09', 'C13'], params={'damping': KDyn},
        requires=DAMP + PENDING(f'_{X}_factor') + [('factor_2d', f'implies(self._{X}_factor is not None, len(awaited(self._{X}_factor).shape) == 2)')],
        raises=[('RuntimeError', f'self._{X}_factor is None')],
        ensures=[
            ('damped_inverse', f'is_tensor(self._{X}_inv) and val(self._{X}_inv) == '
                               f'inv(damped(old(val(awaited(self._{X}_factor))), old(awaited(self._{X}_factor).shape[0]), damping))'),
            ('stored_in_inverse_dtype', f'implies(self.inv_dtype is not None, self._{X}_inv.dtype is self.inv_dtype)'),
            ('same_shape', f'self._{X}_inv.shape == old(awaited(self._{X}_factor).shape)'),
            ('factor_untouched', f'val(awaited(self._{X}_factor)) == old(val(awaited(self._{X}_factor)))'),
        ],
        modifies=[f'self._{X}_inv', f'self._{X}_factor', '*.resolved', 'ghost:next_sid'],
    )
    contract(
        f'{I}.broadcast_{X}_inv', props=['C02', 'C03', 'C09', 'C13'], params={'src': KInt, 'group': G},
        requires=PENDING(f'_{X}_inv') + PENDING(f'_{X}_factor') + [
            ('member_of_group', 'in_group(group)'), ('root_is_member', 'rank_in_group(src, group)'), ('tdc_present', 'self.tdc is not None'),
            ('inverse_square', f'implies(self._{X}_inv is not None, is_square(awaited(self._{X}_inv).shape))'),
            ('receiver_knows_the_shape', f'implies(self._{X}_inv is None and my_rank() != src, is_tensor(self._{X}_factor) and is_square(self._{X}_factor.shape))')],
        raises=[('RuntimeError', f'self._{X}_inv is None and my_rank() == src')],
        ensures=[
            ('holds_inverse', f'self._{X}_inv is not None'),
            ('root_keeps_value', f'implies(my_rank() == src and not (self.symmetric_factors and self.symmetry_aware), '
                                 f'val(awaited(self._{X}_inv)) == old(val(awaited(self._{X}_inv))))'),
            ('receive_buffer_matches_sender', f'implies(old(self._{X}_inv) is None, awaited(self._{X}_inv).shape == old(self._{X}_factor.shape) '
                                              f'and awaited(self._{X}_inv).dtype is self.inv_dtype)'),
            ('alone_nothing_sent', 'implies(group_size(group) == 1, trace() == old(trace()))'),
            ('one_broadcast_otherwise', 'implies(group_size(group) != 1, len(trace()) == len(old(trace())) + 1)'),
        ],
        modifies=[f'self._{X}_inv', f'self._{X}_factor', '*.resolved', '*.val', 'ghost:trace', 'ghost:next_sid'],
    )

contract(
    f'{I}.preconditioned_grad', props=['C01', 'C10'], params={'damping': KDyn},
    requires=GRADS + PENDING('_a_inv') + PENDING('_g_inv') + DAMP,
    raises=[('RuntimeError', 'self._a_inv is None or self._g_inv is None')],
    ensures=[
        # V = G^-1 D A^-1 with the damped inverses held at this moment (damping baked in at refresh time)
        ('kronecker_solve', 'is_tensor(self._grad) and val(self._grad) == '
                            'mul(mul(old(val(awaited(self._g_inv))), old(combined_grad(self.module))), old(val(awaited(self._a_inv))))'),
        ('gradient_dtype_restored', 'self._grad.dtype is old(self.module.module.weight.grad.dtype)'),
        ('module_gradients_untouched', 'val(self.module.module.weight.grad) == old(val(self.module.module.weight.grad)) and '
                                       'self.module.module.weight.grad is old(self.module.module.weight.grad)'),
        ('inverses_untouched', 'val(awaited(self._a_inv)) == old(val(awaited(self._a_inv))) and val(awaited(self._g_inv)) == old(val(awaited(self._g_inv)))'),
    ],
    modifies=['self._grad', 'self._a_inv', 'self._g_inv', '*.resolved', 'ghost:next_sid'],
)
contract(
    f'{I}.memory_usage', props=['C13'], result=KDict(KStr, KInt),
    requires=PENDING('_a_factor') + PENDING('_g_factor') + PENDING('_a_inv') + PENDING('_g_inv'),
    ensures=[('six_entries', 'len(result) == 6'),
             ('inverse_bytes', "result['a_inverses'] == bytes_of(old(awaited(self._a_inv))) and result['g_inverses'] == bytes_of(old(awaited(self._g_inv)))"),
             ('factor_bytes', "result['a_factors'] == bytes_of(old(awaited(self._a_factor))) and result['g_factors'] == bytes_of(old(awaited(self._g_factor))) "
                              "and result['a_batch'] == bytes_of(self._a_batch) and result['g_batch'] == bytes_of(self._g_batch)")],
    modifies=['self._a_factor', 'self._g_factor', 'self._a_inv', 'self._g_inv', '*.resolved'],
)

# C01 (inverse method): the formula proved above solves the damped Kronecker system
lemma(f'{I}.preconditioned_grad', 'solves_damped_kronecker_system', props=['C01'],
      vars={'A': KMat, 'Gm': KMat, 'D': KMat, 'na': KInt, 'ng': KInt, 'lam': KReal},
      hyps=['invertible(damped(A, na, lam))', 'invertible(damped(Gm, ng, lam))'],
      goal='mul(mul(damped(Gm, ng, lam), mul(mul(inv(damped(Gm, ng, lam)), D), inv(damped(A, na, lam)))), damped(A, na, lam)) == D',
      theory=['ring'],
      text='(G + lam I) V (A + lam I) = D for V = (G + lam I)^-1 D (A + lam I)^-1')
