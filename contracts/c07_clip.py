"""C07 — KL clipping: _compute_grad_scale (kfac/base_preconditioner.py)."""
from pyvc.contracts import contract, lemma, spec_def
from pyvc.values import KInt, KReal, KBool, KDyn, KFn, KStr, KDict, KList, KRef, KTuple
from pyvc.tensors import KMat

P = 'kfac.base_preconditioner:BaseKFACPreconditioner'
# i-th layer in the order step() visits them (reversed registration order)
spec_def('rlayer', ['p', 'i'], 'p._layers[key_at(p._layers, len(p._layers) - 1 - i)][1]')
# <V, D> * lr^2 of one layer, written exactly as the code accumulates it: weight block, then the bias column
spec_def('clip_term', ['l', 'lr2'],
         '(item(sumall(smul(lr2, hmul(view(lcols(val(awaited(l._grad))), [awaited(l._grad).shape[0], awaited(l._grad).shape[1] - 1], '
         'l.module.module.weight.grad.shape), val(l.module.module.weight.grad))))) + '
         'item(sumall(smul(lr2, hmul(view(lastcol(val(awaited(l._grad))), [awaited(l._grad).shape[0], 1], l.module.module.bias.grad.shape), '
         'val(l.module.module.bias.grad)))))) if l.module.module.bias is not None else '
         'item(sumall(smul(lr2, hmul(view(val(awaited(l._grad)), awaited(l._grad).shape, l.module.module.weight.grad.shape), '
         'val(l.module.module.weight.grad)))))')
spec_def('nu', ['kl', 'S'], '1.0 if S == 0.0 else min(1.0, sqrt_of(kl / abs(S)))')

# quantification over layers always goes over the registration keys (a clean E-matching trigger);
# the reversed visiting order only matters for the running sum, which is unfolded explicitly
LAYER_OK = ('all(layer_ok(self._layers[m][1]) for m in self._layers)')
spec_def('layer_ok', ['l'],
         'l is not None and l.module is not None and l.module.module is not None '
         'and l.module.module.weight is not None and l.module.module.bias is not l.module.module.weight '
         'and l.module.module.weight.grad is not None '
         'and implies(l.module.module.bias is not None, l.module.module.bias.grad is not None) '
         'and (l._grad is None or is_tensor(l._grad) or is_future(l._grad)) '
         'and implies(is_future(l._grad), l._grad.will_be is not None) '
         'and implies(l._grad is not None, len(awaited(l._grad).shape) == 2)')
spec_def('flayer', ['p', 'm'], 'p._layers[key_at(p._layers, m)][1]')
spec_def('fname', ['p', 'm'], 'p._layers[key_at(p._layers, m)][0]')

contract(
    f'{P}._compute_grad_scale', props=['C07', 'C11'], result=KReal,
    requires=[('layers_wellformed', LAYER_OK),
              ('lr_is_number', 'isinstance(self.lr, (int, float)) and not isinstance(self.lr, bool)'),
              ('kl_clip_is_positive_number', 'isinstance(self.kl_clip, (int, float)) and not isinstance(self.kl_clip, bool) and self.kl_clip > 0')],
    raises=[('AssertionError', 'any(self._layers[m][1]._grad is None for m in self._layers)')],
    definitions=[
        ('clip_sum_0', 'clip_sum(self, 0) == 0.0'),
        ('clip_sum_step@j', 'clip_sum(self, j + 1) == clip_sum(self, j) + clip_term(rlayer(self, j), self.lr ** 2)'),
    ],
    ensures=[
        ('clip_factor', 'result == nu(self.kl_clip, clip_sum(self, len(self._layers)))'),
        ('zero_inner_product_gives_one', 'implies(clip_sum(self, len(self._layers)) == 0.0, result == 1.0)'),
        ('preconditioned_gradients_kept', 'all(awaited(self._layers[m][1]._grad) is old(awaited(self._layers[m][1]._grad)) for m in self._layers)'),
        ('nothing_else_moves', "frame_same('Tensor.val') and frame_same('Tensor.shape') and frame_same('Tensor.grad') and frame_same('Future.will_be')"),
    ],
    loops={'iter:reversed(list(self._layers.values()))': dict(index='i', unfold=['clip_sum_step'], hints=[
        ('this_layer', 'layer is rlayer(self, i)'),
        ('term_reads_unchanged_state', 'clip_term(rlayer(self, i), self.lr ** 2) == old(clip_term(rlayer(self, i), self.lr ** 2))'),
    ], invariants=[
        ('partial_sum', 'vg_sum == clip_sum(self, i)'),
        ('all_preconditioned_so_far', 'all(old(flayer(self, m)._grad) is not None for m in range(len(self._layers) - i, len(self._layers)))'),
        ('gradients_stable', 'all(awaited(self._layers[m][1]._grad) is old(awaited(self._layers[m][1]._grad)) for m in self._layers)'),
        # (that nothing else moves is the function's own frame condition, carried by every loop implicitly)
    ])},
    modifies=['*._grad', '*.resolved', 'ghost:next_sid'],
)

# properties of the clip factor nu(kl, S) = 1 if S == 0 else min(1, sqrt(kl / |S|))   (S = lr^2 * sum <V, D>)
lemma(f'{P}._compute_grad_scale', 'clip_factor_in_unit_interval', props=['C07'],
      vars={'kl': KReal, 'S': KReal}, hyps=['kl > 0'],
      goal='0 < nu(kl, S) and nu(kl, S) <= 1',
      text='the clip factor is a positive multiple of at most 1 (final gradients are a positive multiple of the unclipped ones)')
lemma(f'{P}._compute_grad_scale', 'kl_bound', props=['C07'],
      vars={'kl': KReal, 'S': KReal}, hyps=['kl > 0'],
      goal='nu(kl, S) * nu(kl, S) * abs(S) <= kl',
      text='nu^2 * lr^2 * |sum <V, D>| <= kl_clip')
