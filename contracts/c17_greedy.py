"""KAISAAssignment.greedy_assignment (kfac/assignment.py): C17.

Proved (all inputs): the function raises nothing (every list index, dictionary key, min() of a non-empty list and
the final assertions are safe), the result has exactly the layers and factors of `work`, every factor is assigned
exactly one rank that belongs to one of the worker groups, all factors of a layer lie in ONE group (on one worker
when co-located), and the inputs are not modified.  sorted() is modelled as a permutation: WHICH order the greedy
placement visits layers and factors in, the equality with the reference least-loaded placement and the balance
bound are decided by the bounded run-time contract check (clauses marked [bounded]).
"""
from pyvc.contracts import contract, spec_def
from pyvc.values import KInt, KReal, KBool, KStr, KDict, KList

WORK = KDict(KStr, KDict(KStr, KReal))
ASG = KDict(KStr, KDict(KStr, KInt))
# a is `work` with other values: same layers in the same order, each with the same factors in the same order
spec_def('same_shape', ['a', 'w'],
         'len(a) == len(w) and all(key_at(a, m) == key_at(w, m) and len(a[key_at(w, m)]) == len(w[key_at(w, m)]) and '
         'all(key_at(a[key_at(w, m)], t) == key_at(w[key_at(w, m)], t) for t in range(len(w[key_at(w, m)]))) for m in range(len(w)))')
spec_def('valid_rank', ['r', 'groups'], 'any(r in groups[g] for g in range(len(groups)))')
spec_def('layer_in_one_group', ['d', 'groups'], 'any(all(d[key_at(d, t)] in groups[g] for t in range(len(d))) for g in range(len(groups)))', opaque=True)
spec_def('layer_on_one_worker', ['d'], 'all(d[key_at(d, t)] == d[key_at(d, 0)] for t in range(len(d)))', opaque=True)
spec_def('layer_unassigned', ['d'], 'all(d[key_at(d, t)] == -1 for t in range(len(d)))')
GROUPS_OK = ('len(worker_groups) >= 1 and all(len(worker_groups[g]) >= 1 and '
             'all(0 <= worker_groups[g][r] and worker_groups[g][r] < world_size for r in range(len(worker_groups[g]))) '
             'for g in range(len(worker_groups)))')
STATE = ('same_shape(assignments, work) and len(worker_loads) == world_size and len(summed_work) == len(work) and '
         'all(key_at(summed_work, m) == key_at(work, m) for m in range(len(work)))')
DONE = ('(layer_in_one_group(assignments[sorted_groups[m]], worker_groups) and '
        'implies(colocate_factors, layer_on_one_worker(assignments[sorted_groups[m]])))')

contract(
    'kfac.assignment:KAISAAssignment.greedy_assignment', props=['C17', 'C06'],
    params={'work': WORK, 'worker_groups': KList(KList(KInt)), 'world_size': KInt, 'colocate_factors': KBool}, result=ASG,
    locals={'__comp0': ASG, '__comp1': KDict(KStr, KReal)},
    requires=[('groups_are_ranks', GROUPS_OK), ('world', 'world_size >= 1')],
    ensures=[
        ('same_structure', 'same_shape(result, work)'),
        ('every_layer_in_one_group', 'all(layer_in_one_group(result[key_at(work, m)], worker_groups) for m in range(len(work)))'),
        ('colocated_on_one_worker', 'implies(colocate_factors, all(layer_on_one_worker(result[key_at(work, m)]) for m in range(len(work))))'),
        ('inputs_untouched', 'work == old(work) and worker_groups == old(worker_groups)'),
        ('equals_the_least_loaded_greedy_placement[bounded]', 'result == greedy_reference(work, worker_groups, world_size, colocate_factors)'),
        ('loads_balanced_within_the_largest_item[bounded]', 'greedy_balanced(work, worker_groups, world_size, colocate_factors, result)'),
        ('pure_function[bounded]', 'result == greedy_again(work, worker_groups, world_size, colocate_factors)'),
    ],
    loops={
        'iter:work.items()#0': dict(index='i', invariants=[
            ('built_prefix', 'len(__comp0) == i and all(key_at(__comp0, m) == key_at(work, m) and len(__comp0[key_at(work, m)]) == len(work[key_at(work, m)]) '
                             'and all(key_at(__comp0[key_at(work, m)], t) == key_at(work[key_at(work, m)], t) and __comp0[key_at(work, m)][key_at(work[key_at(work, m)], t)] == -1 '
                             'for t in range(len(work[key_at(work, m)]))) for m in range(i))')]),
        'iter:work.items()#1': dict(index='i', invariants=[
            ('summed_prefix', 'len(__comp1) == i and all(key_at(__comp1, m) == key_at(work, m) for m in range(i))')]),
        'iter:sorted_groups': dict(index='i', cases=['colocate_factors'], hints=[
            ('group_is_one_of_the_groups', 'any(worker_group == worker_groups[g] for g in range(len(worker_groups)))'),
            ('all_factors_placed_in_the_group', 'all(assignments[layer][key_at(work[layer], t)] in worker_group for t in range(len(work[layer])))'),
            ('this_layer_in_one_group', 'layer_in_one_group(assignments[layer], worker_groups)'),
            ('this_layer_on_one_worker', 'implies(colocate_factors, layer_on_one_worker(assignments[layer]))'),
            ('earlier_other_layers_kept', 'all(implies(sorted_groups[m] != layer, ' + DONE + ') for m in range(i))'),
            ('positions_of_this_layer_done', 'all(implies(sorted_groups[m] == layer, ' + DONE + ') for m in range(i + 1))'),
        ], invariants=[
            ('state', STATE),
            ('every_visited_layer_is_a_layer', 'all(sorted_groups[m] in work for m in range(len(sorted_groups)))'),
            ('every_layer_is_visited', 'all(any(sorted_groups[j] == key_at(work, m) for j in range(len(sorted_groups))) for m in range(len(work)))'),
            ('placed_so_far', 'all(' + DONE + ' for m in range(i))'),
        ]),
        'iter:work[layer]': dict(index='j', invariants=[
            ('state', STATE), ('this_layer', 'layer in work and min_worker in worker_group'),
            ('earlier_layers_kept', 'all(implies(sorted_groups[m] != layer, ' + DONE + ') for m in range(i))'),
            ('placed_prefix', 'all(assignments[layer][key_at(work[layer], t)] == min_worker for t in range(j))')]),
        'iter:factors#1': dict(index='j', invariants=[
            ('state', STATE), ('this_layer', 'layer in work'),
            ('earlier_layers_kept', 'all(implies(sorted_groups[m] != layer, ' + DONE + ') for m in range(i))'),
            ('placed_prefix', 'all(assignments[layer][factors[t][0]] in worker_group for t in range(j))')]),
        'iter:assignments': dict(index='i', invariants=[]),
        'iter:assignments[layer]': dict(index='j', invariants=[]),
    },
    modifies=[],
)
