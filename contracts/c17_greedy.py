"""KAISAAssignment.greedy_assignment (kfac/assignment.py): C17.

The body (two nested sorts with key functions, list.index(min(...)), dict-of-dict updates in nested loops) is
outside the subset the VC generator handles; its contract is decided by the bounded run-time contract check on
the real function against an executable reference written from the property statement (labelled bounded in
evidence, never counted as proved).
"""
from pyvc.contracts import contract
from pyvc.values import KInt, KReal, KBool, KStr, KDict, KList

contract(
    'kfac.assignment:KAISAAssignment.greedy_assignment', props=['C17', 'C06', 'C12'], mode='bounded',
    params={'work': KDict(KStr, KDict(KStr, KReal)), 'worker_groups': KList(KList(KInt)), 'world_size': KInt,
            'colocate_factors': KBool},
    requires=[('groups_are_ranks', 'len(worker_groups) >= 1 and all(len(g) >= 1 and all(0 <= r < world_size for r in g) for g in worker_groups)'),
              ('costs_are_numbers', 'all(all(work[l][f] >= 0 for f in work[l]) for l in work)')],
    ensures=[
        ('same_structure', 'set(result) == set(work) and all(set(result[l]) == set(work[l]) for l in work)'),
        ('every_factor_on_one_valid_rank', 'all(all(isinstance(result[l][f], int) and any(result[l][f] in g for g in worker_groups) '
                                           'for f in result[l]) for l in result)'),
        ('layer_confined_to_one_group', 'all(any(all(result[l][f] in g for f in result[l]) for g in worker_groups) for l in result)'),
        ('colocated_on_one_worker', 'implies(colocate_factors, all(len(set(result[l].values())) <= 1 for l in result))'),
        ('equals_the_least_loaded_greedy_placement', 'result == greedy_reference(work, worker_groups, world_size, colocate_factors)'),
        ('loads_balanced_within_the_largest_item', 'greedy_balanced(work, worker_groups, world_size, colocate_factors, result)'),
        ('inputs_untouched', 'work == old(work) and worker_groups == old(worker_groups)'),
        ('pure_function', 'result == greedy_again(work, worker_groups, world_size, colocate_factors)'),
    ],
    modifies=[],
)
