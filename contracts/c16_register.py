"""kfac/layers/register.py: C16.

register_modules walks an arbitrary torch module tree, applies regular expressions and instantiates a layer
class passed as a value with **kwargs: torch.nn.Module.named_modules / re / dynamic class calls have no
deductive model here, so the contracts below are decided by the bounded run-time contract check on the real
functions against an executable reference written from the property statement (labelled bounded, never
counted as proved).
"""
from pyvc.contracts import contract
from pyvc.values import KStr, KList, KRef, KBool, KDyn, KFn, KDict

R = 'kfac.layers.register'
contract(f'{R}:any_match', props=['C16'], mode='bounded', params={'query': KStr, 'patterns': KList(KStr)}, result=KBool,
         ensures=[('regex_search_of_any_pattern', 'result == re_search_any(query, patterns)')], modifies=[])
contract(f'{R}:requires_grad', props=['C16'], mode='bounded', params={'module': KRef('Module')}, result=KBool,
         ensures=[('all_parameters_require_grad', 'result == all_params_require_grad(module)')], modifies=[])
contract(f'{R}:get_flattened_modules', props=['C16'], mode='bounded', params={'root': KRef('Module')}, result=KDyn,
         ensures=[('leaves_once_each_under_their_first_qualified_name', 'result == leaf_modules_reference(root)')], modifies=[])
contract(f'{R}:get_module_helper', props=['C16', 'C15'], mode='bounded', params={'module': KRef('Module')}, result=KDyn,
         ensures=[('helper_by_isinstance', 'helper_matches_reference(module, result)')], modifies=[])
contract(
    f'{R}:register_modules', props=['C16'], mode='bounded',
    params={'model': KRef('Module'), 'kfac_layer_type': KFn, 'skip_layers': KList(KStr)},
    ensures=[
        ('exactly_the_eligible_leaves', 'set(result) == eligible_modules_reference(model, skip_layers)'),
        ('once_each_under_the_unique_qualified_name', 'all(result[m][0] == first_qualified_name(model, m) for m in result) '
                                                      'and len(set(result[m][0] for m in result)) == len(result)'),
        ('layer_wraps_the_module', 'all(isinstance(result[m][1], kfac_layer_type) and result[m][1].module.module is m for m in result)'),
        ('model_left_untouched', 'model_fingerprint(model) == old(model_fingerprint(model))'),
    ],
    modifies=[],
)
