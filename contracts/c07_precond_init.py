"""BaseKFACPreconditioner.__init__ — hyper-parameter validation (C07: kl_clip=None is documented),
initial state (C05) and hook installation (C16/C10)."""
from pyvc.contracts import contract, spec_def
from pyvc.values import KInt, KReal, KBool, KDyn, KFn, KStr, KDict, KList, KRef, KTuple

NUM = lambda h: f'(callable({h}) or (isinstance({h}, (int, float)) and not isinstance({h}, bool)))'   # noqa: E731
LAYERS = KDict(KRef('Module'), KTuple(KStr, KRef('KFACBaseLayer')))

contract(
    'kfac.base_preconditioner:BaseKFACPreconditioner.__init__',
    props=['C07', 'C05', 'C16', 'C10'],
    params={'layers': LAYERS, 'assignment': KRef('WorkAssignment'), 'tdc': KRef('TorchDistributedCommunicator'),
            'factor_update_steps': KDyn, 'inv_update_steps': KDyn, 'damping': KDyn, 'factor_decay': KDyn,
            'kl_clip': KDyn, 'lr': KDyn, 'accumulation_steps': KInt, 'update_factors_in_hook': KBool,
            'defaults': KDyn, 'loglevel': KInt},
    requires=[(f'{h}_type', NUM(h)) for h in ('factor_update_steps', 'inv_update_steps', 'damping', 'factor_decay', 'lr')]
    + [('kl_clip_type', f'kl_clip is None or {NUM("kl_clip")}'),      # documented: None disables clipping
       ('modules_not_none', 'all(m is not None for m in layers)')],
    raises=[('ValueError',
             '(not callable(factor_update_steps) and not 0 < factor_update_steps) or '
             '(not callable(inv_update_steps) and not 0 < inv_update_steps) or '
             '(not callable(damping) and not 0.0 < damping) or '
             '(not callable(factor_decay) and not (0.0 < factor_decay and factor_decay <= 1)) or '
             '(kl_clip is not None and not callable(kl_clip) and not 0.0 < kl_clip) or '
             '(not callable(lr) and not 0.0 <= lr) or not 0 < accumulation_steps')],
    ensures=[
        ('hypers_stored', 'same(self._factor_update_steps, factor_update_steps) and same(self._inv_update_steps, inv_update_steps) '
                          'and same(self._damping, damping) and same(self._factor_decay, factor_decay) '
                          'and same(self._kl_clip, kl_clip) and same(self._lr, lr)'),
        ('config_stored', 'self._accumulation_steps == accumulation_steps and self._assignment is assignment and self._tdc is tdc '
                          'and self._update_factors_in_hook == update_factors_in_hook and self._layers == layers'),
        ('starts_at_step_zero', 'self._steps == 0 and len(self._mini_steps) == 0'),
        ('one_hook_pair_per_module',
         'all(m.fwd_hooks == old(m.fwd_hooks) + 1 and m.bwd_hooks == old(m.bwd_hooks) + 1 for m in layers)'),
    ],
    loops={'iter:self._layers': dict(index='i', invariants=[
        ('hooked_prefix', 'all(key_at(layers, j).fwd_hooks == old(key_at(layers, j).fwd_hooks) + 1 and '
                          'key_at(layers, j).bwd_hooks == old(key_at(layers, j).bwd_hooks) + 1 for j in range(i))'),
        ('untouched_suffix', 'all(key_at(layers, j).fwd_hooks == old(key_at(layers, j).fwd_hooks) and '
                             'key_at(layers, j).bwd_hooks == old(key_at(layers, j).bwd_hooks) for j in range(i, len(layers)))'),
        ('own_fields_stable', 'self._layers == layers and self._steps == 0 and len(self._mini_steps) == 0'),
    ])},
    modifies=['self._accumulation_steps', 'self._assignment', 'self._damping', 'self._defaults', 'self._factor_decay',
              'self._factor_update_steps', 'self._inv_update_steps', 'self._kl_clip', 'self._layers', 'self._loglevel',
              'self._lr', 'self._tdc', 'self._update_factors_in_hook', 'self._steps', 'self._mini_steps',
              '*.fwd_hooks', '*.bwd_hooks'],
)
