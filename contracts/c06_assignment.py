"""C06 — KAISA work assignment (grid partition, queries, constructor)."""
from pyvc.contracts import contract, lemma, spec_def
from pyvc.values import KInt, KReal, KBool, KDyn, KFn, KStr, KDict, KList, KSetInt, KRef

P = '(world_size // grad_workers)'
GRID_PRE = [('positive_workers', 'grad_workers > 0')]
GRID_RAISES = [('ValueError', 'not (0 < world_size) or world_size % grad_workers != 0')]

contract(
    'kfac.assignment:KAISAAssignment.partition_grad_workers', props=['C06'],
    params={'world_size': KInt, 'grad_workers': KInt}, result=KFn,
    requires=GRID_PRE, raises=GRID_RAISES,
    ensures=[
        ('count', f'n_groups(result) == {P}'),
        ('product', f'world_size == grad_workers * {P}'),
        ('is_column', f'all(group(result, i) == rangeset(i, world_size, {P}) for i in range({P}))'),
        # every rank of the world lies in the column given by its residue ...
        ('covers_world', f'all(pt(i, {P}, k) in group(result, i) and 0 <= pt(i, {P}, k) and pt(i, {P}, k) < world_size '
                         f'for i in range({P}) for k in range(grad_workers))'),
        # ... every member of a column is such a rank (so each column has exactly grad_workers members) ...
        ('members_in_world', f'all(0 <= r and r < world_size for i in range({P}) for r in group(result, i))'),
        # ... and columns are pairwise disjoint
        ('disjoint', f'all(not (r in group(result, j)) for i in range({P}) for j in range({P}) if i != j for r in group(result, i))'),
    ],
    modifies=[], theories=['strided_ranges', 'divmod_product'],
)

contract(
    'kfac.assignment:KAISAAssignment.partition_grad_receivers', props=['C06'],
    params={'world_size': KInt, 'grad_workers': KInt}, result=KFn,
    requires=GRID_PRE, raises=GRID_RAISES,
    ensures=[
        ('count', 'n_groups(result) == grad_workers'),
        ('product', f'world_size == grad_workers * {P}'),
        ('is_row', f'all(group(result, i) == rangeset(i * {P}, i * {P} + {P}, 1) for i in range(grad_workers))'),
        ('row_members', f'all((r in group(result, i)) == (i * {P} <= r and r < i * {P} + {P}) for i in range(grad_workers) for r in range(world_size))'),
        ('members_in_world', f'all(0 <= r and r < world_size for i in range(grad_workers) for r in group(result, i))'),
        ('disjoint', 'all(not (r in group(result, j)) for i in range(grad_workers) for j in range(grad_workers) if i != j for r in group(result, i))'),
    ],
    modifies=[], theories=['strided_ranges', 'divmod_product'],
)

# ---------------------------------------------------------------- class invariant of KAISAAssignment
PS = '(self.world_size // self.grad_workers)'
spec_def('kaisa_grid', ['self'],
         '0 <= self.local_rank and self.local_rank < self.world_size and 1 <= self.grad_workers '
         'and self.grad_workers <= self.world_size and self.world_size % self.grad_workers == 0')
spec_def('kaisa_layer_inv', ['self', 'layer'],
         'layer in self._grad_worker_groups and layer in self._grad_receiver_groups '
         'and self._grad_worker_groups[layer] is not None and self._grad_receiver_groups[layer] is not None '
         f'and all(0 <= self._inv_assignments[layer][f] and self._inv_assignments[layer][f] < self.world_size '
         f'        and self._grad_worker_groups[layer].ranks == rangeset(self._inv_assignments[layer][f] % {PS}, self.world_size, {PS}) '
         '        for f in self._inv_assignments[layer]) '
         f'and self._grad_receiver_groups[layer].ranks == rangeset((self.local_rank // {PS}) * {PS}, (self.local_rank // {PS}) * {PS} + {PS}, 1)')
spec_def('kaisa_inv', ['self'],
         'kaisa_grid(self) and all(kaisa_layer_inv(self, layer) and len(self._inv_assignments[layer]) > 0 '
         'for layer in self._inv_assignments)')

INV = ('class_invariant', 'kaisa_inv(self)')
HAS_LAYER = ('known_layer', 'layer in self._inv_assignments')

contract('kfac.assignment:KAISAAssignment.broadcast_gradients', props=['C06', 'C13'], result=KBool,
         requires=[INV],
         ensures=[('not_comm_opt', 'result == (self.grad_workers < self.world_size)'),
                  ('comm_opt_never', 'implies(self.grad_workers == self.world_size, not result)')],
         modifies=[], theories=['strided_ranges', 'divmod_product'])
contract('kfac.assignment:KAISAAssignment.broadcast_inverses', props=['C06', 'C13'], result=KBool,
         requires=[INV],
         ensures=[('not_mem_opt', 'result == (self.grad_workers > 1)'),
                  ('mem_opt_never', 'implies(self.grad_workers == 1, not result)')],
         modifies=[], theories=['strided_ranges', 'divmod_product'])
contract('kfac.assignment:KAISAAssignment.inv_worker', props=['C06', 'C13'], result=KInt,
         params={'layer': KStr, 'factor': KStr},
         requires=[INV, HAS_LAYER, ('known_factor', 'factor in self._inv_assignments[layer]')],
         ensures=[('is_assignment', 'result == self._inv_assignments[layer][factor]'),
                  ('valid_rank', '0 <= result and result < self.world_size'),
                  ('inside_worker_group', 'result in self._grad_worker_groups[layer].ranks')],
         hints=[('witness', f'pt(self._inv_assignments[layer][factor] % {PS}, {PS}, self._inv_assignments[layer][factor] // {PS}) == self._inv_assignments[layer][factor]')],
         modifies=[], theories=['strided_ranges', 'divmod_product'])
contract('kfac.assignment:KAISAAssignment.is_grad_worker', props=['C06', 'C13'], result=KBool,
         params={'layer': KStr},
         requires=[INV, HAS_LAYER],
         ensures=[('membership', 'result == (self.local_rank in self._grad_worker_groups[layer].ranks)'),
                  ('column_of_inverse_worker',
                   f'all(result == (self.local_rank % {PS} == self._inv_assignments[layer][f] % {PS}) for f in self._inv_assignments[layer])')],
         hints=[('local_rank_witness', f'pt(self.local_rank % {PS}, {PS}, self.local_rank // {PS}) == self.local_rank')],
         modifies=[], theories=['strided_ranges', 'divmod_product'])
contract('kfac.assignment:KAISAAssignment.src_grad_worker', props=['C06', 'C13'], result=KInt,
         params={'layer': KStr},
         requires=[INV, HAS_LAYER],
         ensures=[('is_grad_worker_of_layer', 'result in self._grad_worker_groups[layer].ranks'),
                  ('in_own_receiver_group', 'result in self._grad_receiver_groups[layer].ranks and self.local_rank in self._grad_receiver_groups[layer].ranks'),
                  ('self_when_grad_worker', 'implies(self.local_rank in self._grad_worker_groups[layer].ranks, result == self.local_rank)'),
                  ('exactly_one_source', 'all(implies(x in self._grad_worker_groups[layer].ranks and x in self._grad_receiver_groups[layer].ranks, x == result) for x in range(self.world_size))')],
         hints=[('local_rank_witness', f'pt(self.local_rank % {PS}, {PS}, self.local_rank // {PS}) == self.local_rank'),
                ('own_row', 'self.local_rank in self._grad_receiver_groups[layer].ranks'),
                ('witness', f'pt(self._inv_assignments[layer][key_at(self._inv_assignments[layer], 0)] % {PS}, {PS}, self.local_rank // {PS}) '
                            'in (self._grad_worker_groups[layer].ranks & self._grad_receiver_groups[layer].ranks)')],
         modifies=[], theories=['strided_ranges', 'divmod_product'])
contract('kfac.assignment:KAISAAssignment.get_layers', props=['C06'], result=KList(KStr),
         requires=[INV],
         ensures=[('all_layers', 'len(result) == len(self._inv_assignments) and all(result[j] == key_at(self._inv_assignments, j) for j in range(len(result)))')],
         modifies=[], theories=['strided_ranges', 'divmod_product'])
contract('kfac.assignment:KAISAAssignment.get_factors', props=['C06'], result=KList(KStr),
         params={'layer': KStr}, requires=[INV, HAS_LAYER],
         ensures=[('all_factors', 'len(result) == len(self._inv_assignments[layer]) and all(result[j] == key_at(self._inv_assignments[layer], j) for j in range(len(result)))')],
         modifies=[], theories=['strided_ranges', 'divmod_product'])
contract('kfac.assignment:KAISAAssignment.factor_group', props=['C06', 'C13'], result=KRef('ProcessGroup'),
         params={'layer': KStr, 'factor': KStr},
         ensures=[('world_group', 'result is None')], modifies=[])


# ---------------------------------------------------------------- constructor (bounded stand-in)
# The constructor's three loops over sets of frozensets are outside what the engine proves today;
# its contract is checked at run time on the real code (bounded, labelled so, never counted as proved).
spec_def('kof', ['W', 'f'], 'max([1] + [k for k in range(1, W + 1) if k / W == f])')
contract(
    'kfac.assignment:KAISAAssignment.__init__', props=['C06', 'C03'], mode='bounded',
    params={'work': KDict(KStr, KDict(KStr, KReal)), 'local_rank': KInt, 'world_size': KInt,
            'grad_worker_fraction': KReal, 'group_func': KFn, 'colocate_factors': KBool},
    requires=[('fraction_is_k_over_w',
               'grad_worker_fraction < 0 or grad_worker_fraction > 1 or world_size <= 0 or '
               'any(k / world_size == grad_worker_fraction for k in range(0, world_size + 1))')],
    raises=[('ValueError',
             'not (0 <= grad_worker_fraction and grad_worker_fraction <= 1) or local_rank < 0 or world_size < 0 '
             'or local_rank >= world_size or world_size % kof(world_size, grad_worker_fraction) != 0')],
    ensures=[
        ('accepts_k_over_w', 'self.grad_workers == kof(world_size, grad_worker_fraction)'),
        ('fields', 'self.local_rank == local_rank and self.world_size == world_size and self.colocate_factors == colocate_factors'),
        ('class_invariant', 'kaisa_inv(self)'),
        ('whole_world_consistent', 'kaisa_world_consistent(self, work, world_size, grad_worker_fraction, colocate_factors)'),
    ],
    modifies=['*'],
)

# arithmetic core of the residue-uniqueness fact used by the rangeset axioms (quantifier-free, default solver)
lemma('kfac.assignment:KAISAAssignment.partition_grad_workers', 'residue_unique', props=['C06'],
      vars={'a': KInt, 'a2': KInt, 'w1': KInt, 'w2': KInt, 's': KInt},
      hyps=['0 <= a', 'a < s', '0 <= a2', 'a2 < s', 'w1 >= 0', 'w2 >= 0', 'a + w1 * s == a2 + w2 * s'],
      goal='a == a2 and w1 == w2',
      text='two members of strided ranges with the same stride and residues below the stride have equal residues')

lemma('kfac.assignment:KAISAAssignment.partition_grad_workers', 'window_unique', props=['C06'],
      vars={'a': KInt, 'w1': KInt, 'w2': KInt, 's': KInt, 'lo': KInt},
      hyps=['s > 0', 'lo <= a + w1 * s', 'a + w1 * s < lo + s', 'lo <= a + w2 * s', 'a + w2 * s < lo + s'],
      goal='w1 == w2',
      text='a window no longer than the stride contains at most one member of a strided range')

# the communication groups handed to the layers: the handle stored next to the rank set of the layer's group
for _m, _f in (('grad_worker_group', '_grad_worker_groups'), ('grad_receiver_group', '_grad_receiver_groups')):
    contract(f'kfac.assignment:KAISAAssignment.{_m}', props=['C06', 'C13', 'C03'], result=KRef('ProcessGroup'),
             params={'layer': KStr}, requires=[INV, HAS_LAYER],
             ensures=[('handle_of_the_layers_group', f'result is self.{_f}[layer].group')],
             modifies=[], theories=['strided_ranges', 'divmod_product'])
