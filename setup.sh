#!/bin/bash
# Offline sanity set-up: nothing is fetched or built outside /verif.
set -e
cd "$(dirname "$0")"
python3-vt -c "import z3; assert z3.get_version_string().startswith('5.'), z3.get_version_string()"
/venv/bin/python -c "import torch, kfac, os; assert os.path.realpath(kfac.__file__).startswith('/repo/'), kfac.__file__"
mkdir -p evidence replays build
echo "setup ok"
