"""Input generators / object builders for the run-time contract checker (real code, CPython)."""
from __future__ import annotations

import functools
import random

from harness import rtcontract


class Skip(Exception):
    pass


class Case:
    def __init__(self, fn, params, args, kwargs, note=''):
        self.fn, self.params, self.args, self.kwargs, self.note = fn, params, args, kwargs, note

    def describe(self):
        def r(v):
            try:
                s = repr(v)
            except Exception:
                s = f'<{type(v).__name__}>'
            return s[:300]
        d = {k: r(v) for k, v in self.params.items()}
        for k, v in list(self.params.items()):
            if hasattr(v, '__dict__') and not callable(v):
                d[k + '.__dict__'] = {a: r(x) for a, x in vars(v).items()}
        if self.note:
            d['note'] = self.note
        return d


class MultiRankCase:
    """A scenario that needs `world` real processes: build(rank, world) runs inside every rank after
    torch.distributed is initialised (all ranks use the same seed, so collective set-up calls such as
    new_group happen in the same order) and returns the Case that rank checks, or None."""
    def __init__(self, world, build, note=''):
        self.world, self.build, self.note = world, build, note


# ----------------------------------------------------------------------------- primitive kinds
class _CallableObj:
    def __init__(self, c):
        self.c = c

    def __call__(self, step):
        return self.c

    def __repr__(self):
        return f'CallableObj({self.c})'


class _Meth:
    def __init__(self, c):
        self.c = c

    def m(self, step):
        return self.c


def _const_fn(c):
    def f(step):
        return c
    f.__qualname__ = f'const_fn({c})'
    return f


def _step_fn(a, b):
    return lambda step: a + b * step


def gen_callable(rng):
    c = rng.choice([0.5, 2, 1, 0.9, 3, 1.5, 0, 0.1, 7])
    kind = rng.randrange(6)
    if kind == 0:
        return _const_fn(c)
    if kind == 1:
        return functools.partial(lambda k, step: k, c)
    if kind == 2:
        return _CallableObj(c)
    if kind == 3:
        return _Meth(c).m
    if kind == 4:
        return _step_fn(c, rng.choice([0, 1, 0.5]))
    return lambda step: c


INTS = [-3, -1, 0, 1, 2, 3, 4, 5, 7, 8, 10, 16, 100]
REALS = [-1.0, 0.0, 0.001, 0.5, 0.95, 1.0, 1.5, 2.0, 1e-8, 0.1, 3.25, 10.0]


def gen_kind(kind, rng):
    if kind == 'Int':
        return rng.choice(INTS) if rng.random() < 0.7 else rng.randrange(-5, 2000)
    if kind == 'Real':
        return rng.choice(REALS) if rng.random() < 0.6 else rng.uniform(-2, 5)
    if kind == 'Bool':
        return rng.random() < 0.5
    if kind == 'Dyn':
        r = rng.random()
        if r < 0.2:
            return None
        if r < 0.4:
            return rng.choice(INTS)
        if r < 0.6:
            return rng.choice(REALS)
        if r < 0.65:
            return rng.random() < 0.5
        return gen_callable(rng)
    if kind == 'Fn':
        return gen_callable(rng)
    if kind.startswith('Ref['):
        cls = kind[4:-1]
        if cls in BUILDERS:
            return BUILDERS[cls](rng)
    raise Skip(f'no generator for kind {kind}')


# ----------------------------------------------------------------------------- object builders
BUILDERS = {}
GENS = {}


def builder(name):
    def deco(f):
        BUILDERS[name] = f
        return f
    return deco


def gen(key):
    def deco(f):
        GENS[key] = f
        return f
    return deco


def hyper_value(rng, name, allow_callable=True, allow_none=False):
    r = rng.random()
    if allow_callable and r < 0.25:
        return gen_callable(rng)
    if allow_none and r < 0.35:
        return None
    if name in ('factor_update_steps', 'inv_update_steps'):
        return rng.choice([1, 2, 3, 5, 10, 4.0, 7])
    return rng.choice([1, 2, 0.5, 0.001, 0.95, 0.1, 1.0, 3, 0.003, 10])


HYPERS = ['factor_update_steps', 'inv_update_steps', 'damping', 'factor_decay', 'kl_clip', 'lr']


@builder('BaseKFACPreconditioner')
def build_precond(rng):
    import torch
    from kfac.preconditioner import KFACPreconditioner
    model = torch.nn.Sequential(torch.nn.Linear(3, 2, bias=rng.random() < 0.5))
    p = KFACPreconditioner(model)
    for h in HYPERS:
        setattr(p, '_' + h, hyper_value(rng, h))
    p._steps = rng.choice([0, 1, 2, 5, 10, 37])
    return p


@builder('LambdaParamScheduler')
def build_sched(rng):
    from kfac.scheduler import LambdaParamScheduler
    p = build_precond(rng)
    kw = {}
    for h in HYPERS:
        if not callable(getattr(p, '_' + h)) and rng.random() < 0.6:
            kw[h + '_lambda'] = gen_callable(rng)
    return LambdaParamScheduler(p, **kw)


@gen('kfac.hyperparams:exp_decay_factor_averaging._factor_weight')
def _gen_fw(rng, model):
    from kfac.hyperparams import exp_decay_factor_averaging
    cap = rng.choice([0.95, 0.5, 1.0, 2.0, 0.01, rng.uniform(0.001, 3)])
    f = exp_decay_factor_averaging(cap)
    step = rng.choice([-2, -1, 0, 1, 2, 3, 10, 19, 20, 21, 1000, rng.randrange(0, 500)])
    return Case(f, {'step': step, 'min_value': cap}, [step], {})


# ----------------------------------------------------------------------------- default generator
def generator_for(key, c):
    if key in GENS:
        return GENS[key]
    fn, kind, owner = rtcontract.resolve(key)
    if fn is None:
        return None
    import inspect
    try:
        sig = inspect.signature(fn)
    except (TypeError, ValueError):
        return None
    names = list(sig.parameters)

    def g(rng, model):
        params, args, kwargs = {}, [], {}
        for n in names:
            p = sig.parameters[n]
            if n == 'self':
                cls = c.get('self_cls') or (owner.__name__ if owner else None)
                is_init = key.endswith('.__init__')
                if is_init:
                    v = owner.__new__(owner)
                elif cls in BUILDERS:
                    v = BUILDERS[cls](rng)
                elif owner is not None and owner.__name__ in BUILDERS:
                    v = BUILDERS[owner.__name__](rng)
                else:
                    raise Skip(f'no builder for {cls}')
            else:
                kind_ = c['params'].get(n)
                if kind_ is None:
                    raise Skip(f'no kind for {n}')
                v = gen_kind(kind_, rng)
            params[n] = v
            if p.kind == inspect.Parameter.KEYWORD_ONLY:
                kwargs[n] = v
            else:
                args.append(v)
        return Case(fn, params, args, kwargs)
    return g


# ----------------------------------------------------------------------------- tracing (C20)
def _random_traces(rng):
    names = ['f', 'g', 'step', 'func_timer', 'a_b', 'reduce']
    rng.shuffle(names)
    d = {}
    for n in names[: rng.randrange(0, 5)]:
        d[n] = [rng.choice([0.5, 1.0, 0.25, 3.0, 1e-3, rng.uniform(0, 2)]) for _ in range(rng.randrange(1, 7))]
    return d


def _install_traces(rng):
    import kfac.tracing as T
    T._func_traces.clear()
    T._func_traces.update(_random_traces(rng))
    return T


@gen('kfac.tracing:get_trace')
def _gen_get_trace(rng, model):
    T = _install_traces(rng)
    average = rng.random() < 0.5
    mh = rng.choice([None, 1, 2, 3, 5, 10])
    return Case(T.get_trace, {'average': average, 'max_history': mh, '_func_traces': T._func_traces},
                [average, mh], {})


@gen('kfac.tracing:clear_trace')
def _gen_clear(rng, model):
    T = _install_traces(rng)
    return Case(T.clear_trace, {'_func_traces': T._func_traces}, [], {})


@gen('kfac.tracing:trace.decorator.func_timer')
def _gen_func_timer(rng, model):
    import time as _time
    import torch.distributed as dist
    from harness.specfuncs_rt import H, fake_time
    T = _install_traces(rng)
    H.calls, H.clock_reads, H.clock_values = 0, 0, []
    fname = rng.choice(['f', 'g', 'step', 'newname'])
    mode = rng.randrange(3)

    def impl(*a, **k):
        if mode == 1 and (len(a) + len(k)) % 2 == 1:
            raise KeyError('boom')
        if mode == 2:
            return None
        return ('ret', a, tuple(sorted(k.items())))

    def func(*a, **k):
        H.calls += 1
        return impl(*a, **k)
    func.__name__ = fname
    H.pure_impl[id(func)] = impl
    sync = rng.random() < 0.3
    timer = T.trace(sync=sync)(func)
    args = tuple(rng.choice([1, 'x', None, 2.5]) for _ in range(rng.randrange(0, 3)))
    kwargs = {k: rng.choice([1, 'y']) for k in rng.sample(['p', 'q'], rng.randrange(0, 3))}

    def run(*a, **k):
        real_time, real_barrier = _time.time, dist.barrier
        T.time.time = fake_time
        dist.barrier = lambda *aa, **kk: None
        try:
            return timer(*a, **k)
        finally:
            T.time.time = real_time
            dist.barrier = real_barrier
    # history before the checked call: earlier calls of the same traced function, clears
    hist = []
    for _ in range(rng.randrange(0, 4)):
        if rng.random() < 0.6:
            try:
                run(*[7] * rng.randrange(0, 3))
            except Exception:
                pass
            hist.append('call')
        else:
            T.clear_trace()
            hist.append('clear')
    return Case(run, {'func': func, 'sync': sync, 'args': args, 'kwargs': kwargs,
                      '_func_traces': T._func_traces}, list(args), kwargs, note='history=' + ','.join(hist))


# ----------------------------------------------------------------------------- KAISA assignment (C06)
def _random_work(rng):
    n = rng.choice([0, 1, 2, 3, 5, 9, 17])
    work = {}
    for i in range(n):
        costs = [rng.choice([0.0, 1.0, 8.0, 27.0, 64.0, 1000.0, 4096.0, rng.randrange(0, 50) ** 3 * 1.0]) for _ in range(2)]
        work[f'layer{i}'] = {'A': costs[0], 'G': costs[1]}
    return work


def _world(rng):
    r = rng.random()
    if r < 0.55:
        return rng.randrange(1, 33)
    if r < 0.9:
        return rng.randrange(33, 200)
    return rng.choice([49, 98, 103, 107, 161, 187, 196, 256, 512, 711])


def _divisors(n):
    return [k for k in range(1, n + 1) if n % k == 0]


_INEXACT_PAIRS = [(W, k) for W in range(2, 400) for k in range(2, W + 1) if W % k == 0 and W * (k / W) != k]


@builder('KAISAAssignment')
def build_kaisa(rng):
    from kfac.assignment import KAISAAssignment
    for _ in range(50):
        W = _world(rng)
        k = rng.choice(_divisors(W))
        try:
            return KAISAAssignment(_random_work(rng) or {'l': {'A': 1.0, 'G': 2.0}}, local_rank=rng.randrange(W),
                                   world_size=W, grad_worker_fraction=k / W,
                                   group_func=lambda ranks: ('group', tuple(sorted(ranks))),
                                   colocate_factors=rng.random() < 0.5)
        except ValueError:
            continue       # fractions the pinned tree rejects (finding F1) cannot be built
    raise Skip('could not build')


@gen('kfac.assignment:KAISAAssignment.__init__')
def _gen_kaisa_init(rng, model):
    from kfac.assignment import KAISAAssignment
    W = _world(rng)
    r = rng.random()
    if r < 0.12:
        # worker counts k | W whose float product W * (k / W) is not exactly k (one ulp below): the corner the
        # tolerance-and-round step of the constructor exists for
        W, k = rng.choice(_INEXACT_PAIRS)
    elif r < 0.75:
        k = rng.choice(_divisors(W))
    elif r < 0.9:
        k = rng.randrange(0, W + 1)
    else:
        k = rng.choice([-1, W + 1, 2 * W])
    f = k / W
    lr = rng.randrange(W) if rng.random() < 0.9 else rng.choice([-1, W, W + 3])
    work = _random_work(rng)
    co = rng.random() < 0.5
    obj = KAISAAssignment.__new__(KAISAAssignment)
    gf = lambda ranks: ('group', tuple(sorted(ranks)))   # noqa: E731
    params = {'self': obj, 'work': work, 'local_rank': lr, 'world_size': W, 'grad_worker_fraction': f,
              'group_func': gf, 'colocate_factors': co}
    return Case(KAISAAssignment.__init__, params, [obj, work],
                dict(local_rank=lr, world_size=W, grad_worker_fraction=f, group_func=gf, colocate_factors=co))


def _kaisa_method(name, extra):
    key = f'kfac.assignment:KAISAAssignment.{name}'

    @gen(key)
    def g(rng, model):
        from kfac.assignment import KAISAAssignment
        a = build_kaisa(rng)
        layer = rng.choice(list(a._inv_assignments))
        params = {'self': a}
        args = [a]
        if 'layer' in extra:
            params['layer'] = layer
            args.append(layer)
        if 'factor' in extra:
            f = rng.choice(list(a._inv_assignments[layer]))
            params['factor'] = f
            args.append(f)
        return Case(getattr(KAISAAssignment, name), params, args, {})
    return g


for _n, _e in [('broadcast_gradients', ()), ('broadcast_inverses', ()), ('inv_worker', ('layer', 'factor')),
               ('is_grad_worker', ('layer',)), ('src_grad_worker', ('layer',)), ('get_layers', ()),
               ('get_factors', ('layer',)), ('factor_group', ('layer', 'factor'))]:
    _kaisa_method(_n, _e)


# ----------------------------------------------------------------------------- BaseKFACPreconditioner
def tiny_model(rng):
    import torch
    layers = []
    kind = rng.randrange(3)
    if kind == 0:
        layers = [torch.nn.Linear(3, 4, bias=rng.random() < 0.5), torch.nn.ReLU(), torch.nn.Linear(4, 2, bias=rng.random() < 0.5)]
    elif kind == 1:
        layers = [torch.nn.Conv2d(1, 2, 3, bias=rng.random() < 0.5), torch.nn.Flatten(), torch.nn.Linear(2 * 2 * 2, 2)]
    else:
        layers = [torch.nn.Linear(2, 2)]
    return torch.nn.Sequential(*layers)


def real_layers(rng, model=None):
    from kfac.distributed import TorchDistributedCommunicator
    from kfac.layers.eigen import KFACEigenLayer
    from kfac.layers.inverse import KFACInverseLayer
    from kfac.layers.register import register_modules
    from kfac.assignment import KAISAAssignment
    model = model or tiny_model(rng)
    tdc = TorchDistributedCommunicator()
    lt = rng.choice([KFACEigenLayer, KFACInverseLayer])
    layers = register_modules(model, lt, skip_layers=[], tdc=tdc)
    work = {name: {'A': 1.0, 'G': 1.0} for name, _ in layers.values()}
    assignment = KAISAAssignment(work, local_rank=0, world_size=1, grad_worker_fraction=1.0,
                                 group_func=lambda r: None)
    return model, layers, assignment, tdc


class _HookCounter:
    """Expose fwd_hooks / bwd_hooks ghost counters of a torch module for run-time contracts."""


def _install_hook_counters():
    import torch
    M = torch.nn.Module
    if not hasattr(M, 'fwd_hooks'):
        M.fwd_hooks = property(lambda self: len(self._forward_pre_hooks))
        M.bwd_hooks = property(lambda self: len(self._backward_hooks))


@gen('kfac.base_preconditioner:BaseKFACPreconditioner.__init__')
def _gen_base_init(rng, model):
    from kfac.base_preconditioner import BaseKFACPreconditioner
    _install_hook_counters()
    _, layers, assignment, tdc = real_layers(rng)

    def hv(name):
        r = rng.random()
        if r < 0.2:
            return gen_callable(rng)
        if name == 'kl_clip' and r < 0.45:
            return None
        if name in ('factor_update_steps', 'inv_update_steps'):
            return rng.choice([1, 2, 3, 10, 0, -1])
        return rng.choice([0.001, 0.95, 1.0, 0.1, 0.0, -0.5, 1, 2, 1.5])
    kw = {h: hv(h) for h in HYPERS}
    kw.update(accumulation_steps=rng.choice([1, 2, 5, 0, -1]), update_factors_in_hook=rng.random() < 0.5,
              defaults=None, loglevel=10)
    obj = BaseKFACPreconditioner.__new__(BaseKFACPreconditioner)
    params = dict(self=obj, layers=layers, assignment=assignment, tdc=tdc, **kw)
    return Case(BaseKFACPreconditioner.__init__, params, [obj, layers], dict(assignment=assignment, tdc=tdc, **kw))


# ----------------------------------------------------------------------------- tensors / module helpers
def rand_tensor(rng, *shape, dtype=None):
    import torch
    g = torch.Generator().manual_seed(rng.randrange(1 << 30))
    t = torch.randn(*shape, generator=g, dtype=torch.float64)
    return t.to(dtype or rng.choice([torch.float32, torch.float64]))


def with_grads(rng, module):
    for p in module.parameters():
        p.grad = rand_tensor(rng, *p.shape, dtype=p.dtype)
    return module


def rand_linear(rng):
    import torch
    return with_grads(rng, torch.nn.Linear(rng.randrange(1, 6), rng.randrange(1, 6), bias=rng.random() < 0.6))


def rand_conv(rng):
    import torch
    k = (rng.randrange(1, 4), rng.randrange(1, 4))
    return with_grads(rng, torch.nn.Conv2d(rng.randrange(1, 4), rng.randrange(1, 4), k,
                                           stride=(rng.randrange(1, 3), rng.randrange(1, 3)),
                                           padding=(rng.randrange(0, 3), rng.randrange(0, 3)),
                                           bias=rng.random() < 0.6))


@builder('ModuleHelper')
def build_helper(rng):
    from kfac.layers.modules import LinearModuleHelper, Conv2dModuleHelper
    if rng.random() < 0.5:
        return LinearModuleHelper(rand_linear(rng))
    return Conv2dModuleHelper(rand_conv(rng))


@builder('LinearModuleHelper')
def build_linear_helper(rng):
    from kfac.layers.modules import LinearModuleHelper
    return LinearModuleHelper(rand_linear(rng))


@builder('Conv2dModuleHelper')
def build_conv_helper(rng):
    from kfac.layers.modules import Conv2dModuleHelper
    return Conv2dModuleHelper(rand_conv(rng))


@gen('kfac.layers.modules:ModuleHelper.set_grad')
def _gen_set_grad(rng, model):
    from kfac.layers.modules import ModuleHelper
    h = build_helper(rng)
    g = h.get_grad()
    grad = rand_tensor(rng, *g.shape, dtype=g.dtype)
    if rng.random() < 0.3:
        grad = grad.t().contiguous().t()       # non-contiguous input
    return Case(type(h).set_grad, {'self': h, 'grad': grad}, [h, grad], {})


@gen('kfac.layers.utils:get_cov')
def _gen_get_cov(rng, model):
    from kfac.layers.utils import get_cov
    r = rng.random()
    a = rand_tensor(rng, rng.randrange(1, 6), rng.randrange(1, 5)) if r < 0.85 else rand_tensor(rng, 2, 2, 2)
    b = None
    if rng.random() < 0.3:
        b = rand_tensor(rng, *a.shape, dtype=a.dtype) if rng.random() < 0.8 else rand_tensor(rng, a.shape[0] + 1, 2, dtype=a.dtype)
    scale = rng.choice([None, None, 2, 5, 0.5])
    return Case(get_cov, {'a': a, 'b': b, 'scale': scale}, [a, b, scale], {})


@gen('kfac.layers.utils:append_bias_ones')
def _gen_abo(rng, model):
    from kfac.layers.utils import append_bias_ones
    shape = [rng.randrange(1, 5) for _ in range(rng.randrange(1, 4))]
    t = rand_tensor(rng, *shape)
    return Case(append_bias_ones, {'tensor': t}, [t], {})


def _conv_input(rng, m):
    kh, kw = m.kernel_size
    h = rng.randrange(max(1, kh - 2 * m.padding[0]), 8)
    w = rng.randrange(max(1, kw - 2 * m.padding[1]), 8)
    return rand_tensor(rng, rng.randrange(1, 4), m.in_channels, h, w, dtype=m.weight.dtype)


@gen('kfac.layers.modules:Conv2dModuleHelper._extract_patches')
def _gen_patches(rng, model):
    from kfac.layers.modules import Conv2dModuleHelper
    h = build_conv_helper(rng)
    x = _conv_input(rng, h.module)
    return Case(Conv2dModuleHelper._extract_patches, {'self': h, 'x': x}, [h, x], {})


@gen('kfac.layers.modules:Conv2dModuleHelper.get_a_factor')
def _gen_conv_a(rng, model):
    from kfac.layers.modules import Conv2dModuleHelper
    h = build_conv_helper(rng)
    x = _conv_input(rng, h.module)
    return Case(Conv2dModuleHelper.get_a_factor, {'self': h, 'a': x}, [h, x], {})


@gen('kfac.layers.modules:Conv2dModuleHelper.get_g_factor')
def _gen_conv_g(rng, model):
    from kfac.layers.modules import Conv2dModuleHelper
    h = build_conv_helper(rng)
    g = rand_tensor(rng, rng.randrange(1, 4), h.module.out_channels, rng.randrange(1, 5), rng.randrange(1, 5))
    return Case(Conv2dModuleHelper.get_g_factor, {'self': h, 'g': g}, [h, g], {})


@gen('kfac.layers.modules:LinearModuleHelper.get_a_factor')
def _gen_lin_a(rng, model):
    from kfac.layers.modules import LinearModuleHelper
    h = build_linear_helper(rng)
    lead = [rng.randrange(1, 4) for _ in range(rng.randrange(1, 4))]
    a = rand_tensor(rng, *lead, h.module.in_features, dtype=h.module.weight.dtype)
    return Case(LinearModuleHelper.get_a_factor, {'self': h, 'a': a}, [h, a], {})


@gen('kfac.layers.modules:LinearModuleHelper.get_g_factor')
def _gen_lin_g(rng, model):
    from kfac.layers.modules import LinearModuleHelper
    h = build_linear_helper(rng)
    lead = [rng.randrange(1, 4) for _ in range(rng.randrange(1, 4))]
    g = rand_tensor(rng, *lead, h.module.out_features, dtype=h.module.weight.dtype)
    return Case(LinearModuleHelper.get_g_factor, {'self': h, 'g': g}, [h, g], {})


# ---- helpers whose module gradients come from a real forward/backward pass (C15 outer-product clause)
def autograd_helper(rng, kind=None):
    import torch
    from kfac.layers.modules import LinearModuleHelper, Conv2dModuleHelper
    kind = kind or rng.choice(['linear', 'conv'])
    if kind == 'linear':
        m = torch.nn.Linear(rng.randrange(1, 6), rng.randrange(1, 6), bias=rng.random() < 0.6).double()
        lead = [rng.randrange(1, 4) for _ in range(rng.randrange(1, 3))]
        x = rand_tensor(rng, *lead, m.in_features, dtype=torch.float64)
        h = LinearModuleHelper(m)
    else:
        m = rand_conv(rng).double()
        x = _conv_input(rng, m).double()
        h = Conv2dModuleHelper(m)
    for p in m.parameters():
        p.grad = None
    y = m(x)
    gout = rand_tensor(rng, *y.shape, dtype=torch.float64)
    y.backward(gout)
    h._vp_input, h._vp_gout = x, gout
    return h


def _gen_get_grad(cls_name):
    @gen(f'kfac.layers.modules:{cls_name}.get_grad')
    def g(rng, model):
        import kfac.layers.modules as M
        h = autograd_helper(rng, 'conv' if cls_name == 'Conv2dModuleHelper' else 'linear')
        return Case(getattr(M, cls_name).get_grad, {'self': h}, [h], {})
    return g


_gen_get_grad('ModuleHelper')
GENS['kfac.layers.modules:ModuleHelper.get_grad#linear'] = GENS['kfac.layers.modules:ModuleHelper.get_grad']
_gen_get_grad('Conv2dModuleHelper')


# ----------------------------------------------------------------------------- preconditioner with preconditioned gradients
def mixed_model(rng):
    import torch
    mods = []
    kind = rng.randrange(4)
    if kind == 0:
        mods = [torch.nn.Linear(4, 3, bias=False), torch.nn.ReLU(), torch.nn.Linear(3, 2, bias=True)]
    elif kind == 1:
        mods = [torch.nn.Linear(4, 3, bias=True), torch.nn.ReLU(), torch.nn.Linear(3, 3, bias=False), torch.nn.Linear(3, 2, bias=rng.random() < 0.5)]
    elif kind == 2:
        mods = [torch.nn.Conv2d(1, 2, 3, bias=False), torch.nn.Flatten(), torch.nn.Linear(2 * 2 * 2, 2, bias=True)]
    else:
        mods = [torch.nn.Linear(4, 2, bias=rng.random() < 0.5)]
    return torch.nn.Sequential(*mods), (torch.randn(3, 1, 4, 4) if kind == 2 else torch.randn(5, 4))


def precond_with_grads(rng, **kw):
    """A real KFACPreconditioner after one forward/backward pass with preconditioned gradients computed."""
    import torch
    from kfac.preconditioner import KFACPreconditioner
    torch.manual_seed(rng.randrange(1 << 30))
    model, x = mixed_model(rng)
    method = rng.choice(['eigen', 'inverse'])
    p = KFACPreconditioner(model, compute_method=method, lr=rng.choice([0.1, 1.0, 0.5, 2]),
                           kl_clip=rng.choice([0.001, 0.01, 1.0, 10.0]), **kw)
    model(x).sum().backward()
    for name, layer in reversed(list(p._layers.values())):
        layer.compute_a_inv(damping=p.damping)
        layer.compute_g_inv(damping=p.damping)
        layer.preconditioned_grad(damping=p.damping)
    return p


@gen('kfac.base_preconditioner:BaseKFACPreconditioner._compute_grad_scale')
def _gen_grad_scale(rng, model):
    from kfac.base_preconditioner import BaseKFACPreconditioner
    p = precond_with_grads(rng)
    if rng.random() < 0.1:
        list(p._layers.values())[0][1].grad = None
    return Case(BaseKFACPreconditioner._compute_grad_scale, {'self': p}, [p], {})


# ----------------------------------------------------------------------------- preconditioner-level operations
def trained_precond(rng, steps=None, **kw):
    """Real KFACPreconditioner after `steps` training iterations (single process)."""
    import torch
    from kfac.preconditioner import KFACPreconditioner
    torch.manual_seed(rng.randrange(1 << 30))
    model, x = mixed_model(rng)
    method = kw.pop('compute_method', rng.choice(['eigen', 'inverse']))
    damping = rng.choice([0.001, 0.01, lambda s: 0.001 * (s + 1)])
    p = KFACPreconditioner(model, compute_method=method, damping=damping,
                           factor_update_steps=rng.choice([1, 2]), inv_update_steps=rng.choice([1, 2, 4]),
                           kl_clip=rng.choice([0.001, 1.0, None]), lr=rng.choice([0.1, 1.0]),
                           compute_eigenvalue_outer_product=rng.random() < 0.5,
                           update_factors_in_hook=rng.random() < 0.5,
                           **kw)
    n = rng.choice([0, 1, 2, 3, 5]) if steps is None else steps
    for _ in range(n):
        model.zero_grad()
        model(x).sum().backward()
        p.step()
    p._vp_model, p._vp_x, p._vp_method = model, x, method
    return p


def fresh_like(rng, p):
    from kfac.preconditioner import KFACPreconditioner
    import copy
    model = copy.deepcopy(p._vp_model)
    q = KFACPreconditioner(model, compute_method=p._vp_method,
                           compute_eigenvalue_outer_product=p.compute_eigenvalue_outer_product,
                           damping=p._damping if callable(p._damping) else rng.choice([0.003, 0.02]),
                           kl_clip=rng.choice([0.002, 2.0]), lr=rng.choice([0.2, 3.0]))
    q._vp_model, q._vp_x, q._vp_method = model, p._vp_x, p._vp_method
    return q


def _gen_load(variant):
    key = f'kfac.base_preconditioner:BaseKFACPreconditioner.load_state_dict#{variant}'

    @gen(key)
    def g(rng, model):
        from kfac.base_preconditioner import BaseKFACPreconditioner
        p = trained_precond(rng, compute_method=variant)
        sd = p.state_dict(include_factors=rng.random() < 0.85)
        q = fresh_like(rng, p)
        ci = rng.random() < 0.8
        return Case(BaseKFACPreconditioner.load_state_dict, {'self': q, 'state_dict': sd, 'compute_inverses': ci}, [q, sd, ci], {},
                    note=f'saved after {p.steps} steps')
    return g


_gen_load('inverse')
_gen_load('eigen')


# ----------------------------------------------------------------------------- communicator (multi-rank)
def _subgroups(rng, world):
    """A deterministic list of rank lists (every rank creates all of them, in this order)."""
    out = []
    for _ in range(rng.choice([1, 2, 3])):
        k = rng.randint(1, world)
        out.append(sorted(rng.sample(range(world), k)))
    return out


@gen('kfac.distributed:TorchDistributedCommunicator.group_ranks')
def _gen_group_ranks(rng, model):
    world = rng.choice([1, 2, 3, 4])
    seed = rng.randrange(1 << 30)

    def build(rank, world):
        import random
        import torch.distributed as dist
        from kfac.distributed import TorchDistributedCommunicator
        r = random.Random(seed)
        lists = _subgroups(r, world)
        groups = [dist.new_group(l) for l in lists]
        pick = r.randrange(len(groups) + 1)
        group = None if pick == len(groups) else groups[pick]
        if group is not None and rank not in lists[pick]:
            return None
        tdc = TorchDistributedCommunicator()
        return Case(TorchDistributedCommunicator.group_ranks, {'self': tdc, 'group': group}, [tdc, group], {},
                    note=f'groups {lists}, queried {"world" if group is None else lists[pick]}')
    return MultiRankCase(world, build, note=f'world {world}, seed {seed}')


def _rand_tensor(r, dtypes=None):
    import torch
    dt = r.choice(dtypes or [torch.float32, torch.float64, torch.float16])
    shape = r.choice([(2, 2), (3,), (2, 3), (1,), (4, 4)])
    g = torch.Generator().manual_seed(r.randrange(1 << 30))
    return torch.randn(*shape, generator=g).to(dt)


@gen('kfac.distributed:AllreduceTensorBucket.allreduce')
def _gen_bucket_allreduce(rng, model):
    world = rng.choice([2, 2, 3])
    seed = rng.randrange(1 << 30)

    def build(rank, world):
        import random
        import torch.distributed as dist
        from kfac.distributed import AllreduceTensorBucket
        r = random.Random(seed)
        lists = _subgroups(r, world)
        groups = [dist.new_group(l) for l in lists]
        pick = r.randrange(len(groups) + 1)
        group = None if pick == len(groups) else groups[pick]
        n = r.choice([0, 1, 2, 3])
        shapes_seed = r.randrange(1 << 30)
        if group is not None and rank not in lists[pick]:
            return None
        b = AllreduceTensorBucket(group)
        rr = random.Random(shapes_seed)           # same shapes / dtypes on every rank, different values
        for _ in range(n):
            t = _rand_tensor(rr)
            b.add_tensor(t + rank)
        if r.random() < 0.1:
            b._communicated = True
        return Case(AllreduceTensorBucket.allreduce, {'self': b}, [b], {},
                    note=f'group {"world" if group is None else lists[pick]}, {n} tensors of dtypes {[str(t.dtype) for t in b._tensors]}')
    return MultiRankCase(world, build, note=f'world {world}, seed {seed}')


@gen('kfac.distributed:TorchDistributedCommunicator.flush_allreduce_buckets')
def _gen_flush(rng, model):
    world = rng.choice([1, 2, 2, 3, 3])
    seed = rng.randrange(1 << 30)

    def build(rank, world):
        import random
        import torch
        import torch.distributed as dist
        from kfac.distributed import TorchDistributedCommunicator
        r = random.Random(seed)
        lists = _subgroups(r, world)
        groups = [dist.new_group(l) for l in lists] + [None]
        lists = lists + [list(range(world))]
        tdc = TorchDistributedCommunicator(bucket_cap_mb=r.choice([25.0, 0.0001, 0.0004, 0.00002]))
        tdc._vp_requests = []
        for _ in range(r.choice([0, 1, 2, 4, 6])):
            gi = r.randrange(len(groups))
            rr = random.Random(r.randrange(1 << 30))
            t = _rand_tensor(rr)
            average, symmetric = r.random() < 0.6, (t.dim() == 2 and t.shape[0] == t.shape[1] and r.random() < 0.6)
            if rank not in lists[gi]:
                continue
            if symmetric:
                t = (t + t.t()) / 2
            t = t + rank * (1 if not symmetric else 0) + (rank if symmetric else 0) * torch.eye(t.shape[0], dtype=t.dtype) if symmetric else t + rank
            fut = tdc.allreduce_bucketed(t.clone(), average=average, group=groups[gi], symmetric=symmetric)
            tdc._vp_requests.append((t.clone(), average, groups[gi], symmetric, fut))
        return Case(TorchDistributedCommunicator.flush_allreduce_buckets, {'self': tdc}, [tdc], {},
                    note=f'groups {lists}, {len(tdc._vp_requests)} pending requests on this rank, cap {tdc._bucket_cap_mb} MB')
    return MultiRankCase(world, build, note=f'world {world}, seed {seed}')


def _gen_comm(method):
    key = f'kfac.distributed:TorchDistributedCommunicator.{method}'

    @gen(key)
    def g(rng, model):
        world = rng.choice([1, 2, 2, 3])
        seed = rng.randrange(1 << 30)

        def build(rank, world):
            import random
            import torch
            import torch.distributed as dist
            from kfac.distributed import TorchDistributedCommunicator
            r = random.Random(seed)
            lists = _subgroups(r, world)
            groups = [dist.new_group(l) for l in lists] + [None]
            lists = lists + [list(range(world))]
            gi = r.randrange(len(groups))
            rr = random.Random(r.randrange(1 << 30))
            t = _rand_tensor(rr, [torch.float32, torch.float64])
            if r.random() < 0.3:
                t = torch.randn(r.choice([(2, 4), (3, 2), (2, 2, 2)]))
            symmetric = r.random() < 0.6
            if symmetric and t.dim() == 2 and t.shape[0] == t.shape[1]:
                t = (t + t.t()) / 2 + rank * torch.eye(t.shape[0], dtype=t.dtype)
            else:
                t = t + rank
            average = r.random() < 0.5
            src = r.choice(lists[gi])
            if rank not in lists[gi]:
                return None
            tdc = TorchDistributedCommunicator()
            fn = getattr(TorchDistributedCommunicator, method)
            if method == 'broadcast':
                params = {'self': tdc, 'tensor': t, 'src': src, 'group': groups[gi], 'symmetric': symmetric}
                kw = {'src': src, 'group': groups[gi], 'symmetric': symmetric}
            else:
                params = {'self': tdc, 'tensor': t, 'average': average, 'group': groups[gi], 'symmetric': symmetric}
                kw = {'average': average, 'group': groups[gi], 'symmetric': symmetric}
            return Case(fn, params, [tdc, t], kw, note=f'group {lists[gi]}, shape {tuple(t.shape)}, symmetric={symmetric}')
        return MultiRankCase(world, build, note=f'world {world}, seed {seed}')
    return g


def _gen_layer_broadcast(X):
    """KFACInverseLayer.broadcast_{a,g}_inv on several ranks: the root computed the inverse, receivers either hold an
    older inverse or size their buffer from their own copy of the factor."""
    key = f'kfac.layers.inverse:KFACInverseLayer.broadcast_{X}_inv'

    @gen(key)
    def g(rng, model):
        world = rng.choice([1, 2, 2, 3])
        seed = rng.randrange(1 << 30)

        def build(rank, world):
            import random
            import torch
            import torch.distributed as dist
            from kfac.distributed import TorchDistributedCommunicator
            from kfac.layers.inverse import KFACInverseLayer
            from kfac.layers.modules import LinearModuleHelper
            r = random.Random(seed)
            lists = _subgroups(r, world)
            groups = [dist.new_group(l) for l in lists] + [None]
            lists = lists + [list(range(world))]
            gi = r.randrange(len(groups))
            src = r.choice(lists[gi])
            torch.manual_seed(r.randrange(1 << 30))
            lin = torch.nn.Linear(r.choice([1, 2, 3, 5]), r.choice([1, 2, 4]), bias=r.random() < 0.5)
            aware = r.random() < 0.6
            inv_dtype = r.choice([torch.float32, torch.float64])
            receivers_hold_old = r.random() < 0.5
            layer = KFACInverseLayer(LinearModuleHelper(lin), tdc=TorchDistributedCommunicator(), symmetry_aware=aware, inv_dtype=inv_dtype)
            n = layer.module.a_factor_shape[0] if X == 'a' else layer.module.g_factor_shape[0]
            m = torch.randn(n, n)
            setattr(layer, f'_{X}_factor', m @ m.t() / n + torch.eye(n))
            if rank not in lists[gi]:
                return None
            if rank == src or receivers_hold_old:
                getattr(layer, f'compute_{X}_inv')(damping=0.01 * (1 + (rank != src)))
            fn = getattr(KFACInverseLayer, f'broadcast_{X}_inv')
            return Case(fn, {'self': layer, 'src': src, 'group': groups[gi]}, [layer], {'src': src, 'group': groups[gi]},
                        note=f'group {lists[gi]}, src {src}, n={n}, symmetry_aware={aware}, receivers hold an old inverse: {receivers_hold_old}')
        return MultiRankCase(world, build, note=f'world {world}, seed {seed}')
    return g


_gen_layer_broadcast('a')
_gen_layer_broadcast('g')
_gen_comm('allreduce')
_gen_comm('broadcast')


@gen('kfac.assignment:KAISAAssignment.greedy_assignment')
def _gen_greedy(rng, model):
    from kfac.assignment import KAISAAssignment
    world = rng.choice([1, 2, 3, 4, 6, 8, 12])
    ranks = list(range(world))
    style = rng.random()
    if style < 0.6:          # a partition into equal groups (what KAISA passes)
        divs = [d for d in range(1, world + 1) if world % d == 0]
        g = rng.choice(divs)
        rng.shuffle(ranks) if rng.random() < 0.3 else None
        groups = [ranks[i * (world // g):(i + 1) * (world // g)] for i in range(g)]
    else:                    # arbitrary disjoint groups
        rng.shuffle(ranks)
        k = rng.randint(1, world)
        cuts = sorted(rng.sample(range(1, world), k - 1)) if world > 1 and k > 1 else []
        groups = [ranks[a:b] for a, b in zip([0] + cuts, cuts + [world])]
    nl = rng.choice([0, 1, 2, 3, 5, 8])
    costs = rng.choice([[1.0], [1.0, 2.0, 3.0], None])
    work = {}
    for i in range(nl):
        fs = {}
        for f in rng.choice([['A', 'G'], ['A', 'G'], ['A'], ['A', 'G', 'B']]):
            fs[f] = rng.choice(costs) if costs else round(rng.uniform(0, 10), rng.choice([0, 1, 3]))
        work[f'layer{i}'] = fs
    colocate = rng.random() < 0.5
    return Case(KAISAAssignment.greedy_assignment,
                {'work': work, 'worker_groups': groups, 'world_size': world, 'colocate_factors': colocate},
                [work, groups, world, colocate], {})


# ----------------------------------------------------------------------------- registration (C16)
def _rand_tree(rng, depth=0):
    """Random module tree: plain and subclassed Linear / Conv2d leaves, unsupported leaves, shared instances,
    frozen parameters, bias on/off."""
    import torch

    class MyLinear(torch.nn.Linear):
        pass

    class TinyConv(torch.nn.Conv2d):
        pass
    pool = []

    def leaf():
        k = rng.random()
        if pool and k < 0.15:
            return rng.choice(pool)                       # shared instance
        if k < 0.45:
            m = rng.choice([torch.nn.Linear, MyLinear])(rng.randint(1, 4), rng.randint(1, 4), bias=rng.random() < 0.7)
        elif k < 0.7:
            m = rng.choice([torch.nn.Conv2d, TinyConv])(rng.randint(1, 3), rng.randint(1, 3), rng.choice([1, 2, 3]), bias=rng.random() < 0.7)
        elif k < 0.8:
            m = torch.nn.MultiheadAttention(4, 2)         # holds a Linear subclass (out_proj) below it
            return m
        else:
            m = rng.choice([torch.nn.ReLU(), torch.nn.BatchNorm1d(3), torch.nn.Embedding(5, 3), torch.nn.LayerNorm(3)])
        if rng.random() < 0.2:
            for p in list(m.parameters())[: rng.choice([1, 2])]:
                p.requires_grad_(False)
        pool.append(m)
        return m

    def node(d):
        if d >= 2 or rng.random() < 0.3:
            return leaf()
        names = rng.sample(['fc1', 'fc2', 'conv', 'block', 'head', 'embed', 'layer', '0', '1', '2', 'fc10'], rng.randint(1, 4))
        return torch.nn.ModuleDict({n: node(d + 1) for n in names}) if rng.random() < 0.5 else \
            torch.nn.Sequential(*[node(d + 1) for _ in names])
    root = node(0)
    if not list(root.children()):
        root = torch.nn.Sequential(root)
    return root


_PATTERNS = ['fc1', 'fc1$', '^fc1$', r'\.2$', '^0', 'Linear', '^Linear$', '^Conv', 'conv', 'Conv2d$', 'block\\.fc', 'head', 'My', 'embed', '1']


@gen('kfac.layers.register:register_modules')
def _gen_register(rng, model):
    from kfac.layers.register import register_modules
    from kfac.layers.eigen import KFACEigenLayer
    from kfac.layers.inverse import KFACInverseLayer
    from kfac.distributed import TorchDistributedCommunicator
    from kfac.enums import AllreduceMethod
    root = _rand_tree(rng)
    skip = rng.sample(_PATTERNS, rng.choice([0, 0, 1, 2, 3]))
    lt = rng.choice([KFACEigenLayer, KFACInverseLayer])
    kw = dict(allreduce_method=AllreduceMethod.ALLREDUCE, tdc=TorchDistributedCommunicator())
    return Case(register_modules, {'model': root, 'kfac_layer_type': lt, 'skip_layers': skip}, [root, lt, skip], kw,
                note=f'skip={skip}')


@gen('kfac.layers.register:any_match')
def _gen_any_match(rng, model):
    from kfac.layers.register import any_match
    q = rng.choice(['fc1', 'block.fc1', 'fc10', 'block.2', 'Linear', 'MyLinear', 'Conv2d', '0', 'head.fc2', ''])
    ps = rng.sample(_PATTERNS, rng.choice([0, 1, 2, 4]))
    return Case(any_match, {'query': q, 'patterns': ps}, [q, ps], {})


def _one_module_gen(fname):
    @gen(f'kfac.layers.register:{fname}')
    def g(rng, model):
        from kfac.layers import register
        root = _rand_tree(rng)
        m = rng.choice([m for _, m in root.named_modules()])
        return Case(getattr(register, fname), {'module': m}, [m], {})
    return g


_one_module_gen('requires_grad')
_one_module_gen('get_module_helper')


@gen('kfac.layers.register:get_flattened_modules')
def _gen_flat(rng, model):
    from kfac.layers.register import get_flattened_modules
    root = _rand_tree(rng)
    return Case(get_flattened_modules, {'root': root}, [root], {})


# ----------------------------------------------------------------------------- GPT-NeoX (DeepSpeed stub)
def _deepspeed_stub():
    import os
    import sys
    p = os.path.join(os.path.dirname(os.path.abspath(__file__)), 'stubs')
    if p not in sys.path:
        sys.path.insert(0, p)


@gen('kfac.gpt_neox.assignment:GPTNeoXAssignment.__init__')
def _gen_neox_assignment(rng, model):
    _deepspeed_stub()
    from deepspeed.runtime.pipe.topology import PipeModelDataParallelTopology
    from kfac.gpt_neox.assignment import GPTNeoXAssignment
    from harness.specfuncs_rt import _FakeGroup
    import torch.distributed as dist
    pp, dp, mp = rng.choice([1, 1, 2, 3]), rng.choice([1, 2, 2, 3, 4]), rng.choice([1, 1, 2, 3])
    topo = PipeModelDataParallelTopology(num_pp=pp, num_mp=mp, num_dp=dp)
    W = topo.world_size()
    r = rng.randrange(W)
    work = {}
    for i in range(rng.choice([0, 1, 2, 4, 7])):
        work[f'layer{i}'] = {'A': rng.choice([1.0, 2.0, round(rng.uniform(0, 9), 1)]), 'G': rng.choice([1.0, 3.0, round(rng.uniform(0, 9), 1)])}
    dpg = _FakeGroup(next(l for l in topo.get_axis_comm_lists('data') if r in l))
    mpg = _FakeGroup(next(l for l in topo.get_axis_comm_lists('model') if r in l))
    obj = GPTNeoXAssignment.__new__(GPTNeoXAssignment)
    orig = dist.new_group
    dist.new_group = lambda ranks=None, *a, **k: _FakeGroup(ranks)

    def call(self, work, **kw):
        try:
            return GPTNeoXAssignment.__init__(self, work, **kw)
        finally:
            dist.new_group = orig
    kw = dict(local_rank=r, topology=topo, data_parallel_group=dpg, model_parallel_group=mpg)
    return Case(call, dict(self=obj, work=work, **kw), [obj, work], kw, note=f'pp={pp} dp={dp} mp={mp} rank={r}')


# ----------------------------------------------------------------------------- layer-level operations (single process)
def _layer_in_state(rng, method=None):
    """A real layer taken out of a preconditioner after a random number of iterations, optionally with fresh
    accumulated batches (forward/backward done, step not yet called)."""
    p = trained_precond(rng, compute_method=method or rng.choice(['eigen', 'inverse']))
    model, x = p._vp_model, p._vp_x
    if rng.random() < 0.7:
        model.zero_grad()
        model(x).sum().backward()
    name, layer = rng.choice(list(p._layers.values()))
    return p, name, layer


def _layer_gen(cls_key, fname, args=None, state=None, variant=None):
    key = f'{cls_key}.{fname}'

    @gen(key)
    def g(rng, model):
        import importlib
        mod, cname = cls_key.split(':')
        cls = getattr(importlib.import_module(mod), cname)
        method = {'KFACInverseLayer': 'inverse', 'KFACEigenLayer': 'eigen'}.get(cname, variant)
        p, name, layer = _layer_in_state(rng, method)
        if state:
            state(rng, p, layer)
        a = args(rng, p, layer) if args else {}
        fn = getattr(cls, fname)
        params = dict(self=layer, **a)
        return Case(fn, params, [layer], a, note=f'layer {name} after {p.steps} steps')
    return g


def _drop_second_order(rng, p, layer):
    if rng.random() < 0.15:
        for f in ('_a_inv', '_g_inv', '_qa', '_qg', '_da', '_dg', '_dgda'):
            if hasattr(layer, f) and rng.random() < 0.5:
                setattr(layer, f, None)


def _drop_factor(rng, p, layer):
    if rng.random() < 0.15:
        layer._a_factor = None
    if rng.random() < 0.1:
        layer._g_factor = None


_LB = 'kfac.layers.base:KFACBaseLayer'
_LI = 'kfac.layers.inverse:KFACInverseLayer'
_LE = 'kfac.layers.eigen:KFACEigenLayer'
_damp = lambda rng, p, l: {'damping': rng.choice([0.001, 0.01, 0.5])}      # noqa: E731
_alpha = lambda rng, p, l: {'alpha': rng.choice([0.0, 0.5, 0.95, 1.0])}    # noqa: E731
for _k in (_LI, _LE):
    _layer_gen(_k, 'compute_a_inv', _damp, _drop_factor)
    _layer_gen(_k, 'compute_g_inv', _damp, _drop_factor)
    _layer_gen(_k, 'preconditioned_grad', _damp, _drop_second_order)
    _layer_gen(_k, 'memory_usage')
def _fresh_low_precision_batch(rng, p, layer):
    """Sometimes: a layer that has not built its factor yet, accumulating in a non-default factor dtype."""
    import torch
    if rng.random() < 0.4:
        dt = rng.choice([torch.bfloat16, torch.float64, torch.float16])
        layer.factor_dtype = dt
        layer._a_factor = layer._g_factor = None
        for f in ('_a_batch', '_g_batch'):
            b = getattr(layer, f)
            if b is not None:
                setattr(layer, f, b.to(dt))


_layer_gen(_LB, 'update_a_factor', _alpha)
_layer_gen(_LB, 'update_g_factor', _alpha)
_layer_gen(_LB, 'reset_batch')
_layer_gen(_LB, 'state_dict')
_layer_gen(_LB, 'memory_usage')
_layer_gen(_LB, 'reduce_a_factor', lambda rng, p, l: {'group': None}, _drop_factor)
_layer_gen(_LB, 'reduce_g_factor', lambda rng, p, l: {'group': None}, _drop_factor)


def _with_grad(rng, p, layer):
    if rng.random() < 0.85:
        layer.preconditioned_grad(damping=0.01) if layer.a_factor is not None and getattr(layer, 'qa', getattr(layer, 'a_inv', None)) is not None else None


_layer_gen(_LB, 'update_grad', lambda rng, p, l: {'scale': rng.choice([None, 0.5, 1.0, 0.123])}, _with_grad)


@gen(f'{_LB}.save_layer_input')
def _gen_save_input(rng, model):
    import torch
    from kfac.layers.base import KFACBaseLayer
    p, name, layer = _layer_in_state(rng)
    m = layer.module.module
    x = torch.randn(rng.randint(1, 4), *( (m.in_features,) if hasattr(m, 'in_features') else (m.in_channels, 5, 5)))
    return Case(KFACBaseLayer.save_layer_input, {'self': layer, 'input_': [x]}, [layer, [x]], {}, note=f'layer {name}')


@gen(f'{_LB}.save_layer_grad_output')
def _gen_save_grad_output(rng, model):
    import torch
    from kfac.layers.base import KFACBaseLayer
    p, name, layer = _layer_in_state(rng)
    m = layer.module.module
    g = torch.randn(rng.randint(1, 4), *((m.out_features,) if hasattr(m, 'out_features') else (m.out_channels, 3, 3)))
    if rng.random() < 0.3:
        sc = rng.choice([2.0, 1024.0])
        layer.grad_scaler = lambda: sc
    return Case(KFACBaseLayer.save_layer_grad_output, {'self': layer, 'grad_output': [g]}, [layer, [g]], {}, note=f'layer {name}')


def _gen_step(variant):
    key = f'kfac.base_preconditioner:BaseKFACPreconditioner.step#{variant}'

    @gen(key)
    def g(rng, model):
        from kfac.base_preconditioner import BaseKFACPreconditioner
        p = trained_precond(rng, compute_method=variant)
        p._vp_model.zero_grad()
        p._vp_model(p._vp_x).sum().backward()
        return Case(BaseKFACPreconditioner.step, {'self': p}, [p], {}, note=f'after {p.steps} steps, update_factors_in_hook={p._update_factors_in_hook}')
    return g


_gen_step('inverse')
_gen_step('eigen')


def _gen_mem_variant(variant):
    @gen(f'kfac.base_preconditioner:BaseKFACPreconditioner.memory_usage#{variant}')
    def g(rng, model):
        return _gen_mem(rng, model, variant)
    return g


def _gen_mem(rng, model, variant=None):
    from kfac.base_preconditioner import BaseKFACPreconditioner
    p = trained_precond(rng, **({'compute_method': variant} if variant else {}))
    if rng.random() < 0.5:
        p._vp_model.zero_grad()
        p._vp_model(p._vp_x).sum().backward()
    return Case(BaseKFACPreconditioner.memory_usage, {'self': p}, [p], {}, note=f'after {p.steps} steps')


@gen('kfac.preconditioner:KFACPreconditioner.__init__')
def _gen_kfac_ctor(rng, model):
    world = rng.choice([1, 1, 2, 3, 4])
    seed = rng.randrange(1 << 30)

    def build(rank, world):
        import random
        import torch
        from kfac.preconditioner import KFACPreconditioner
        from kfac.enums import DistributedStrategy, ComputeMethod, AssignmentStrategy
        r = random.Random(seed)
        torch.manual_seed(seed % 1000)
        m = _rand_tree(r)
        kw = {'model': m}
        opt = lambda k, vals: kw.__setitem__(k, r.choice(vals)) if r.random() < 0.6 else None      # noqa: E731
        divs = [k / world for k in range(1, world + 1) if world % k == 0]
        opt('grad_worker_fraction', [DistributedStrategy.COMM_OPT, DistributedStrategy.HYBRID_OPT, DistributedStrategy.MEM_OPT,
                                     0, 1, 0.5, 1.5, -0.1, 0.3] + divs + divs)
        opt('compute_method', [ComputeMethod.EIGEN, ComputeMethod.INVERSE, 'eigen', 'inverse'])
        opt('assignment_strategy', [AssignmentStrategy.COMPUTE, AssignmentStrategy.MEMORY, 'compute', 'memory'])
        opt('colocate_factors', [True, False])
        opt('compute_eigenvalue_outer_product', [True, False])
        opt('allreduce_bucket_cap_mb', [25.0, 0, 0.001, -1])
        opt('symmetry_aware', [True, False])
        opt('skip_layers', [[], ['fc1'], ['Linear'], ['^Conv']])
        obj = KFACPreconditioner.__new__(KFACPreconditioner)
        args = dict(kw)
        args.pop('model')

        def call(self, model, **k):
            return KFACPreconditioner.__init__(self, model, **k)
        return Case(call, {'self': obj, 'model': m, '__kwargs__': kw}, [obj, m], args,
                    note=f'world {world}: ' + ', '.join(f'{a}={b}' for a, b in args.items()))
    if world == 1:
        class _Single:
            pass
    return MultiRankCase(world, build, note=f'world {world}, seed {seed}')


# ----------------------------------------------------------------------------- triangular packing (C14)
def _sym_tensor(rng):
    import torch
    n = rng.choice([1, 2, 3, 5])
    dt = rng.choice([torch.float32, torch.float64, torch.float16])
    t = torch.randn(n, n).to(dt)
    t = ((t + t.t()) / 2).to(dt)
    if rng.random() < 0.3:           # values whose double would overflow: packing moves elements, it does no arithmetic
        big = torch.finfo(dt).max * 0.75
        u = torch.where(torch.randn(n, n) < 0, torch.tensor(-big, dtype=torch.float64), torch.tensor(big, dtype=torch.float64))
        t = (torch.triu(u) + torch.triu(u, 1).t()).to(dt)
    return t


@gen('kfac.distributed:get_triu')
def _gen_get_triu(rng, model):
    import torch
    from kfac.distributed import get_triu
    t = _sym_tensor(rng) if rng.random() < 0.7 else torch.randn(*rng.choice([(2, 3), (3, 2), (4,), (2, 2, 2), (1, 4)]))
    return Case(get_triu, {'tensor': t}, [t], {})


@gen('kfac.distributed:fill_triu')
def _gen_fill_triu(rng, model):
    from kfac.distributed import get_triu, fill_triu
    t = _sym_tensor(rng)
    packed = get_triu(t)
    shape = tuple(t.shape) if rng.random() < 0.9 else (3,)
    return Case(fill_triu, {'shape': shape, 'triu_tensor': packed}, [shape, packed], {}, note=f'n={t.shape[0]} {t.dtype}')


_gen_mem_variant('inverse')
_gen_mem_variant('eigen')
