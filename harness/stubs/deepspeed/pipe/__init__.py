import torch


class PipelineModule(torch.nn.Module):
    """Stand-in: a module that knows its topology (what kfac.gpt_neox.preconditioner asks of it)."""
    def __init__(self, layers=None, topology=None):
        super().__init__()
        self.layers_ = torch.nn.ModuleList(list(layers or []))
        self._topo = topology

    def topology(self):
        return self._topo

    def forward(self, x):
        for l_ in self.layers_:
            x = l_(x)
        return x
