from collections import namedtuple
from itertools import product


class ProcessTopology:
    def __init__(self, axes, dims):
        self.axes, self.dims = list(axes), list(dims)
        self.ProcessCoord = namedtuple('ProcessCoord', axes)
        self.mapping = {}
        for global_rank, coord in enumerate(product(*[range(d) for d in dims])):
            self.mapping[self.ProcessCoord(**dict(zip(axes, coord)))] = global_rank

    def get_rank(self, **coord_kwargs):
        return self.mapping[self.ProcessCoord(**coord_kwargs)]

    def get_dim(self, axis):
        return self.dims[self.axes.index(axis)] if axis in self.axes else 0

    def get_coord(self, rank):
        for coord, idx in self.mapping.items():
            if idx == rank:
                return coord
        raise ValueError(f'rank {rank} not found in topology.')

    def get_axis_comm_lists(self, axis):
        if axis not in self.axes:
            return []
        other_axes = [a for a in self.axes if a != axis]
        lists = []
        for coord in product(*[range(self.get_dim(a)) for a in other_axes]):
            other_keys = dict(zip(other_axes, coord))
            lists.append([self.get_rank(**other_keys, **{axis: k}) for k in range(self.get_dim(axis))])
        return lists

    def world_size(self):
        n = 1
        for d in self.dims:
            n *= d
        return n


class PipeModelDataParallelTopology(ProcessTopology):
    def __init__(self, num_pp, num_mp, num_dp):
        super().__init__(axes=['pipe', 'data', 'model'], dims=[num_pp, num_dp, num_mp])
