"""Minimal stand-in for the parts of DeepSpeed that kfac.gpt_neox imports (DeepSpeed is not installed here).

Only used by the bounded run-time checks / replays of the GPT-NeoX properties (C11, C12, C18): put on sys.path
by harness code before kfac.gpt_neox.* is imported.  The topology follows deepspeed.runtime.pipe.topology
(ProcessTopology: row-major coordinates over the axes, PipeModelDataParallelTopology: axes pipe, data, model).
"""
