"""Run-time evaluation of side-car contracts on the REAL code (CPython, /venv interpreter).

Used by the bounded falsifier (to turn a failed / undecided obligation into a concrete failing
input), by replay, and by contract validation against the repository's own tests.  Agreement at
run time is never counted towards a proof; only disagreement (a concrete counterexample) is used.
"""
from __future__ import annotations

import ast
import copy
import importlib
import math


class ContractViolation(Exception):
    def __init__(self, clause, detail):
        super().__init__(f'{clause}: {detail}')
        self.clause, self.detail = clause, detail


def same(a, b):
    if a is None or b is None:
        return a is b
    if callable(a) or callable(b):
        return a is b
    if type(a) is not type(b):
        return False
    try:
        import torch
        if isinstance(a, torch.Tensor):
            return a.shape == b.shape and a.dtype == b.dtype and bool(torch.equal(a, b))
    except ImportError:
        pass
    if isinstance(a, float) and math.isnan(a) and math.isnan(b):
        return True
    return a == b


def is_closure(f, qual):
    return callable(f) and getattr(f, '__qualname__', '').replace('.<locals>', '') == qual


def captured(f, name):
    idx = f.__code__.co_freevars.index(name)
    return f.__closure__[idx].cell_contents


class _Rewrite(ast.NodeTransformer):
    """old(e) -> __old__[i];  implies(a, b) -> (not a) or b.
    old(x.attr) with x bound by an enclosing comprehension -> __oldattr__(x, 'attr') (attribute table
    snapshotted in the pre-state for every object reachable from the parameters)."""

    def __init__(self):
        self.olds = []
        self.bound = []
        self.attrs = set()

    def _comp(self, node):
        names = [n.id for g in node.generators for n in ast.walk(g.target) if isinstance(n, ast.Name)]
        self.bound.append(names)
        self.generic_visit(node)
        self.bound.pop()
        return node

    visit_GeneratorExp = visit_ListComp = visit_SetComp = visit_DictComp = _comp

    def visit_Compare(self, node):
        # torch.device objects are compared by value (`x.device is y.device` is a statement about the device)
        if any(isinstance(o, (ast.Is, ast.IsNot)) for o in node.ops) and '.device' in ast.unparse(node):
            node.ops = [ast.Eq() if isinstance(o, ast.Is) else ast.NotEq() if isinstance(o, ast.IsNot) else o for o in node.ops]
        self.generic_visit(node)
        return node

    def visit_Attribute(self, node):
        # f.will_be (the tensor a future stands for) is awaited(f) at run time
        self.generic_visit(node)
        if node.attr == 'will_be' and isinstance(node.ctx, ast.Load):
            return ast.Call(func=ast.Name('awaited', ast.Load()), args=[node.value], keywords=[])
        return node

    def visit_Call(self, node):
        if isinstance(node.func, ast.Name) and node.func.id == 'old':
            arg = node.args[0]
            free = {n.id for n in ast.walk(arg) if isinstance(n, ast.Name)} & {x for b in self.bound for x in b}
            if free:
                if isinstance(arg, ast.Attribute) and isinstance(arg.value, ast.Name):
                    self.attrs.add(arg.attr)
                    return ast.Call(func=ast.Name('__oldattr__', ast.Load()),
                                    args=[arg.value, ast.Constant(arg.attr)], keywords=[])
                if isinstance(arg, ast.Attribute) and isinstance(arg.value, ast.Call):
                    # old(f(...).attr): the object is state-independent, only the attribute is old
                    self.attrs.add(arg.attr)
                    return ast.Call(func=ast.Name('__oldattr__', ast.Load()),
                                    args=[self.visit(arg.value), ast.Constant(arg.attr)], keywords=[])
                raise SyntaxError('old() over comprehension variables supports only old(x.attr)')
            self.olds.append(ast.Expression(body=arg))
            return ast.Subscript(value=ast.Name('__old__', ast.Load()),
                                 slice=ast.Constant(len(self.olds) - 1), ctx=ast.Load())
        self.generic_visit(node)
        if isinstance(node.func, ast.Name) and node.func.id == 'implies':
            a, b = node.args
            return ast.BoolOp(op=ast.Or(), values=[ast.UnaryOp(op=ast.Not(), operand=a), b])
        return node


def reachable_objects(params, depth=3):
    seen, out, stack = set(), [], [(v, 0) for v in params.values()]
    while stack:
        v, d = stack.pop()
        if id(v) in seen or d > depth:
            continue
        seen.add(id(v))
        if isinstance(v, dict):
            stack += [(x, d + 1) for x in list(v.keys()) + list(v.values())]
        elif isinstance(v, (list, tuple, set, frozenset)):
            stack += [(x, d + 1) for x in v]
        elif hasattr(v, '__dict__') and not isinstance(v, type) and not callable(v):
            out.append(v)
            try:
                stack += [(x, d + 1) for x in vars(v).values()]
            except TypeError:
                pass
    return out


class HarnessLimit(Exception):
    """The run-time evaluator cannot evaluate a clause on this input (not a verdict about the code)."""


class _Inline(ast.NodeTransformer):
    """Replace the names bound by a contract's `lets` by their defining expressions."""
    def __init__(self, lets):
        self.lets = lets

    def visit_Name(self, node):
        if isinstance(node.ctx, ast.Load) and node.id in self.lets:
            return self.visit(ast.parse(self.lets[node.id].strip(), mode='eval').body)
        return node


class _Olds(list):
    """Values of the old(..) sub-expressions; one that could not be evaluated in the pre-state (e.g. it is guarded
    by a condition that is false) raises only if the clause really reads it."""
    def __getitem__(self, i):
        v = list.__getitem__(self, i)
        if isinstance(v, _OldError):
            raise v.exc
        return v


class _OldError:
    def __init__(self, exc):
        self.exc = exc


class Clause:
    def __init__(self, label, text, lets=None):
        self.label, self.text = label, text
        rw = _Rewrite()
        tree0 = ast.parse(text.strip(), mode='eval')
        if lets:
            tree0 = _Inline(lets).visit(tree0)
        tree = rw.visit(tree0)
        ast.fix_missing_locations(tree)
        self.code = compile(tree, f'<contract:{label}>', 'eval')
        self.old_attrs = rw.attrs
        self.olds = []
        for o in rw.olds:
            ast.fix_missing_locations(o)
            self.olds.append(compile(o, f'<old:{label}>', 'eval'))

    def pre(self, env):
        vals = []
        self._attr_table = {}
        if self.old_attrs:
            for o in reachable_objects({k: v for k, v in env.items() if not callable(v)}):
                for a in self.old_attrs:
                    try:
                        self._attr_table[(id(o), a)] = getattr(o, a)
                    except Exception:
                        pass
        for c in self.olds:
            try:
                v = eval(c, env)
            except Exception as ex:      # noqa
                vals.append(_OldError(ex))
                continue
            try:
                v = copy.copy(v) if isinstance(v, (list, dict, set)) else v
                if isinstance(v, dict):
                    v = {k: (list(x) if isinstance(x, list) else x) for k, x in v.items()}
            except Exception:
                pass
            vals.append(v)
        return vals

    def post(self, env, olds):
        e = dict(env)
        e['__old__'] = _Olds(olds)
        table = getattr(self, '_attr_table', {})
        def oldattr(o, a):
            if (id(o), a) not in table:
                # the object was not reachable from the parameters in the pre-state: a limit of this evaluator
                raise HarnessLimit(f'no pre-state value of .{a} for {type(o).__name__}')
            return table[(id(o), a)]
        e['__oldattr__'] = oldattr
        return eval(self.code, e)


def resolve(key):
    """'kfac.mod:Class.method' -> (callable taking the real arguments, kind, owner class)."""
    mod, qual = key.split('#')[0].split(':')
    setter = qual.endswith('@setter')
    qual = qual.replace('@setter', '')
    m = importlib.import_module(mod)
    parts = qual.split('.')
    obj = m
    owner = None
    for i, p in enumerate(parts):
        if isinstance(obj, type):
            owner = obj
            raw = obj.__dict__.get(p, None)
            if raw is None:
                raw = getattr(obj, p)
            if isinstance(raw, property):
                return (raw.fset if setter else raw.fget), 'method', owner
            if isinstance(raw, staticmethod):
                obj = raw.__func__
                if i == len(parts) - 1:
                    return obj, 'static', owner
                continue
            obj = raw
        else:
            if not hasattr(obj, p):
                return None, 'nested', owner
            obj = getattr(obj, p)
    return obj, ('method' if owner is not None else 'function'), owner


def install_tensor_ghosts():
    try:
        import torch
    except ImportError:
        return
    Tn = torch.Tensor
    if not hasattr(Tn, 'contig'):
        Tn.contig = property(lambda self: self.is_contiguous())
        Tn.sid = property(lambda self: self.untyped_storage().data_ptr() if self.numel() else id(self))
        Tn.val = property(lambda self: __import__('harness.specfuncs_rt', fromlist=['MatVal']).MatVal(self))


class RuntimeContract:
    def __init__(self, cdict, spec_defs):
        install_tensor_ghosts()
        self.c = cdict
        lets = cdict.get('lets') or {}
        self.skipped = []

        def mk(label, text):
            try:
                return Clause(label, text, lets)
            except SyntaxError as ex:      # a form the run-time evaluator does not support: decided deductively only
                self.skipped.append((label, str(ex)))
                return None
        self.requires = [c for c in (mk(l, t) for l, t in cdict['requires']) if c is not None]
        self.ensures = [c for c in (mk(l, t) for l, t in cdict['ensures']) if c is not None]
        self.raises = [(e, c) for e, c in ((e, mk(f'raises:{e}', t)) for e, t in cdict['raises']) if c is not None]
        self.may_raise = cdict.get('may_raise', [])
        self.base_env = {'same': same, 'is_closure': is_closure, 'captured': captured, 'math': math}
        for name, (params, text) in spec_defs.items():
            tree = ast.parse(f'lambda {", ".join(params)}: {text}', mode='eval')
            tree = _Rewrite().visit(tree)
            ast.fix_missing_locations(tree)
            self.base_env[name] = eval(compile(tree, f'<spec_def:{name}>', 'eval'), self.base_env)
        try:
            from harness import specfuncs_rt
            self.base_env.update(specfuncs_rt.FUNCS)
        except ImportError:
            pass

    def env(self, params):
        e = dict(self.base_env)
        e.update(params)
        return e

    def admissible(self, params):
        env = self.env(params)
        self.why = ''
        for cl in self.requires:
            try:
                if not cl.post(env, cl.pre(env)):
                    self.why = f'requires:{cl.label} is false'
                    return False
            except Exception as ex:
                self.why = f'requires:{cl.label} raised {type(ex).__name__}: {ex}'
                return False
        return True

    def check_call(self, fn, params, args, kwargs, frame_objs=None):
        """Run fn(*args, **kwargs) and check the contract.  Raises ContractViolation."""
        env = self.env(params)
        when = {}
        for exc, cl in self.raises:
            when[exc] = bool(cl.post(env, cl.pre(env)))
        olds = {id(cl): cl.pre(env) for cl in self.ensures}
        snap = self.snapshot(env)
        raised = None
        try:
            result = fn(*args, **kwargs)
        except Exception as ex:      # noqa
            raised = ex
        if raised is not None:
            name = type(raised).__name__
            if name not in when:
                # a clause for a base class (e.g. 'Exception') covers its subclasses
                import builtins
                for decl in list(when) + list(self.may_raise):
                    cls = getattr(builtins, decl, None)
                    if isinstance(cls, type) and isinstance(raised, cls):
                        name = decl
                        break
            if name in when:
                if not when[name]:
                    raise ContractViolation(f'raises:{name}:raised=>when',
                                            f'raised {name}({raised}) although the condition is false')
                for other, w in when.items():
                    pass
                return ('raised', name)
            if name in self.may_raise:
                return ('raised', name)
            raise ContractViolation(f'noexc:{name}', f'unexpected {name}: {raised}')
        for exc, w in when.items():
            if w:
                raise ContractViolation(f'raises:{exc}:when=>raised', f'{exc} was not raised')
        env['result'] = result
        for cl in self.ensures:
            try:
                ok = cl.post(env, olds[id(cl)])
            except HarnessLimit:
                continue       # this clause cannot be evaluated on this input (it stays a deductive obligation)
            except (KeyError, IndexError, ZeroDivisionError, AttributeError, StopIteration) as ex:
                # the post-state lacks something the clause talks about: a genuine violation
                raise ContractViolation(f'ensures:{cl.label}', f'clause raised {type(ex).__name__}: {ex}')
            if not ok:
                why = ''
                try:
                    from harness import specfuncs_rt as _rt
                    why = getattr(_rt.H, 'last_detail', '') or ''
                    _rt.H.last_detail = ''
                except Exception:      # noqa
                    pass
                raise ContractViolation(f'ensures:{cl.label}', f'clause is false: {cl.text}' + (f'  [{why}]' if why else ''))
        self.check_frame(env, snap)
        return ('ok', result)

    # ---- frame: shallow comparison of attributes of the objects named in params / modifies
    def frame_targets(self, env):
        objs = {}
        for name, v in list(env.items()):
            if name in self.base_env:
                continue
            if hasattr(v, '__dict__') and not callable(v) and not isinstance(v, type):
                objs[name] = v
        for m in self.c.get('modifies', []):
            if m.startswith('*') or m == 'fresh':
                continue
            expr = m.rsplit('.', 1)[0]
            try:
                o = eval(expr, env)
                if hasattr(o, '__dict__'):
                    objs[expr] = o
            except Exception:
                pass
        return objs

    def snapshot(self, env):
        if self.c.get('modifies') == ['*']:
            return None
        snap = {}
        for expr, o in self.frame_targets(env).items():
            snap[expr] = (o, {k: v for k, v in vars(o).items()})
        return snap

    def check_frame(self, env, snap):
        if snap is None:
            return
        allowed = {}
        anyfield = set()
        for m in self.c.get('modifies', []):
            if m.startswith('*.'):
                anyfield.add(m[2:])
            elif '.' in m:
                expr, attr = m.rsplit('.', 1)
                allowed.setdefault(expr, set()).add(attr)
        ident = {}
        for expr, (o, _) in snap.items():
            ident.setdefault(id(o), set()).update(allowed.get(expr, set()))
        for expr, (o, before) in snap.items():
            ok = ident[id(o)] | anyfield
            after = vars(o)
            for k in set(before) | set(after):
                if k in ok:
                    continue
                b, a = before.get(k, '<absent>'), after.get(k, '<absent>')
                if a is b:
                    continue
                try:
                    eq = same(a, b)
                except Exception:
                    eq = False
                if not eq:
                    raise ContractViolation(f'frame:{type(o).__name__}.{k}',
                                            f'{expr}.{k} changed from {b!r} to {a!r} (not in modifies)')
