"""CPython implementations of the spec-only functions used in contracts (run-time checking)."""
from __future__ import annotations


class HarnessState:
    calls = 0
    clock_values: list = []
    clock_reads = 0
    pure_impl = {}      # id(func) -> pure implementation (no counting)


H = HarnessState


def key_at(d, j):
    return list(d)[j]


def same_dict(a, b):
    return list(a.items()) == list(b.items()) and all(type(x) is type(y) for x, y in zip(a.values(), b.values()))


def call(func, args, kwargs):
    impl = H.pure_impl[id(func)]
    return impl(*args, **kwargs)


def call_raises(func, args, kwargs):
    impl = H.pure_impl[id(func)]
    try:
        impl(*args, **kwargs)
        return False
    except Exception:
        return True


def calls_made():
    return H.calls


def clock_reads():
    return H.clock_reads


def clock_at(i):
    while len(H.clock_values) <= i:
        H.clock_values.append(1000.0 + 0.37 * len(H.clock_values) ** 1.5)
    return H.clock_values[i]


def fake_time():
    v = clock_at(H.clock_reads)
    H.clock_reads += 1
    return v


def n_groups(fam):
    return len(fam)


def group(fam, i):
    members = sorted(fam, key=lambda S: (min(S) if S else -1))
    return members[i]


def rangeset(a, b, s):
    return frozenset(range(a, b, s))


def pt(a, s, k):
    return a + k * s


FUNCS = {'n_groups': n_groups, 'group': group, 'rangeset': rangeset, 'pt': pt,
         'key_at': key_at, 'same_dict': same_dict, 'call': call, 'call_raises': call_raises,
         'calls_made': calls_made, 'clock_reads': clock_reads, 'clock_at': clock_at}


# ---- C06: the property statement as an executable oracle over every rank of the world
def kaisa_world_consistent(self, work, W, fraction, colocate):
    from kfac.assignment import KAISAAssignment
    calls = {}

    def mk(rank):
        log = []

        def gf(ranks):
            log.append(tuple(sorted(ranks)))
            return ('group', tuple(sorted(ranks)))
        a = KAISAAssignment(work, local_rank=rank, world_size=W, grad_worker_fraction=fraction,
                            group_func=gf, colocate_factors=colocate)
        calls[rank] = log
        return a
    ranks = range(W) if W <= 24 else sorted({0, 1, W - 1, W // 2, self.local_rank, (self.local_rank * 7 + 3) % W})
    world = {r: mk(r) for r in ranks}
    g = self.grad_workers
    p = W // g
    cols = KAISAAssignment.partition_grad_workers(W, g)
    rows = KAISAAssignment.partition_grad_receivers(W, g)
    for fam, size, n in ((cols, g, p), (rows, p, g)):
        assert len(fam) == n and all(len(S) == size for S in fam), 'groups are not equal parts'
        assert sorted(x for S in fam for x in S) == list(range(W)), 'groups do not partition the world'
    for r, a in world.items():
        assert a._inv_assignments == self._inv_assignments, f'rank {r} derives different inverse workers'
        assert calls[r] == calls[self.local_rank] if self.local_rank in calls else True, 'group creation order differs'
        assert a.broadcast_gradients() == (g < W) and a.broadcast_inverses() == (g > 1), 'broadcast flags'
        for layer in work:
            wg = a._grad_worker_groups[layer].ranks
            rg = a._grad_receiver_groups[layer].ranks
            assert wg in cols and rg in rows and r in rg, 'groups are not a column / the own row'
            assert all(a.inv_worker(layer, f) in wg for f in work[layer]), 'inverse worker outside the worker group'
            src = a.src_grad_worker(layer)
            assert src in wg and src in rg, f'rank {r}: source {src} not a grad worker inside own receiver group'
            assert len(wg & rg) == 1, 'more than one candidate source'
            assert a.is_grad_worker(layer) == (r in wg), 'is_grad_worker'
            if r in wg:
                assert src == r, 'grad worker must be its own source'
    return True


def _wrap_assert(f):
    def g(*a, **k):
        try:
            return f(*a, **k)
        except AssertionError as ex:
            g.last = str(ex)
            return False
    return g


FUNCS['kaisa_world_consistent'] = _wrap_assert(kaisa_world_consistent)


# ---- matrix-level spec functions on real tensors (run-time refutation only; never counts as proof)
class MatVal:
    """Tensor value with structural equality up to a small relative tolerance."""

    def __init__(self, t):
        import torch
        self.t = t.detach().clone() if isinstance(t, torch.Tensor) else torch.as_tensor(t)

    def __eq__(self, o):
        import torch
        if not isinstance(o, MatVal):
            return NotImplemented
        a, b = self.t, o.t
        if a.numel() != b.numel():
            return False
        # tolerance of the less precise of the two operands (values are compared as reals: DESIGN 4.5)
        tol = max({torch.float16: 1e-2, torch.bfloat16: 6e-2, torch.float64: 1e-9}.get(x.dtype, 1e-5) for x in (a, b))
        a, b = a.reshape(-1).double(), b.reshape(-1).double()
        if a.numel() == 0:
            return True
        # (a value that is a sum carries the size of its summands: cancellation must not tighten the tolerance)
        scale = max(float(a.abs().max()), float(b.abs().max()), 1e-30, getattr(self, 'scale', 0.0), getattr(o, 'scale', 0.0))
        return bool(((a - b).abs().max() / scale) <= tol) or bool(torch.equal(a, b))

    def __ne__(self, o):
        r = self.__eq__(o)
        return r if r is NotImplemented else not r

    def __hash__(self):
        return id(self)

    def __repr__(self):
        return f'MatVal(shape={tuple(self.t.shape)}, dtype={self.t.dtype})'


def _m(x):
    import torch
    if isinstance(x, MatVal):
        return x.t
    if isinstance(x, torch.Tensor):
        return x
    return torch.as_tensor(x)


def _2d(t):
    return t if t.dim() == 2 else t.reshape(t.shape[0], -1) if t.dim() > 2 else t.reshape(-1, 1) if t.dim() == 1 else t.reshape(1, 1)


def _mk_ops():
    import torch
    W = MatVal
    ops = {
        'val': lambda t: None if t is None else (W(t.detach().clone()) if hasattr(t, 'detach') else W(t)),
        'mul': lambda a, b: W(_m(a) @ _m(b)),
        'add': lambda a, b: W(_m(a) + _m(b)),
        'sub': lambda a, b: W(_m(a) - _m(b)),
        'hmul': lambda a, b: W(_m(a) * _m(b)),
        'hdiv': lambda a, b: W(_m(a) / _m(b)),
        'smul': lambda c, a: W(c * _m(a)),
        'sadd': lambda a, c: W(_m(a) + c),
        'sdiv': lambda a, c: W(_m(a) / c),
        'rdiv': lambda c, a: W(c / _m(a)),
        'tr': lambda a: W(_m(a).t()),
        'inv': lambda a: W(torch.linalg.inv(_m(a))),
        'diag': lambda a: W(torch.diag(_m(a))),
        'full': lambda shape, c: W(torch.full(tuple(shape), float(c))),
        'hcat': lambda a, b: W(torch.cat([_m(a), _m(b).to(_m(a).dtype)], dim=-1)),
        'lcols': lambda a: W(_m(a)[:, :-1]),
        'lastcol': lambda a: W(_m(a)[:, -1:]),
        'view': lambda a, s1, s2: W(_m(a).reshape(tuple(s2))),
        'eigvals': lambda a: W(torch.linalg.eigh(_m(a))[0]),
        'eigvecs': lambda a: W(torch.linalg.eigh(_m(a))[1]),
        'clampmin': lambda a, c: W(torch.clamp(_m(a), min=c)),
        'outer': lambda a, b: W(torch.outer(_m(a), _m(b))),
        'sumall': lambda a: W(_m(a).sum()),
        'item': lambda a: _m(a).item(),
        'numel': lambda shape: int(torch.Size(tuple(shape)).numel()),
        'infer_extent': lambda n, p: n // p,
        'is_tensor': lambda x: isinstance(x, torch.Tensor),
        'is_future': lambda x: isinstance(x, (torch._C.Future, torch.futures.Future)),
        'fresh_storage': lambda t: True,
    }
    return ops


try:
    FUNCS.update(_mk_ops())
except ImportError:
    pass
FUNCS['shape_is'] = lambda t, lst: list(t.shape) == list(lst)
FUNCS['transpose'] = lambda a, i, j: MatVal(_m(a).transpose(i, j))
FUNCS['unfold'] = lambda a, d, k, s: MatVal(_m(a).unfold(d, k, s))
FUNCS['pad'] = lambda a, l, r, t, b: MatVal(__import__('torch').nn.functional.pad(_m(a), (l, r, t, b)))


def outer_product_oracle(helper):
    """C15: combined gradient == sum over samples/positions of outer(output-gradient row, [input-patch row | 1]).
    Uses autograd's own gradients (trusted conv/linear backward) on the recorded forward/backward pass."""
    import torch
    x, gout = helper._vp_input, helper._vp_gout
    m = helper.module
    if isinstance(m, torch.nn.Conv2d):
        rows = torch.nn.functional.unfold(x, m.kernel_size, padding=m.padding, stride=m.stride)  # N, C*kh*kw, L
        rows = rows.transpose(1, 2).reshape(-1, rows.shape[1])
        g = gout.reshape(gout.shape[0], gout.shape[1], -1).transpose(1, 2).reshape(-1, gout.shape[1])
        own = helper._extract_patches(x)
        if not torch.allclose(own.reshape(-1, own.shape[-1]), rows):
            return False
    else:
        rows = x.reshape(-1, x.shape[-1])
        g = gout.reshape(-1, gout.shape[-1])
    if m.bias is not None:
        rows = torch.cat([rows, torch.ones(rows.shape[0], 1, dtype=rows.dtype)], 1)
    expect = g.t() @ rows
    got = helper.get_grad()
    return got.shape == expect.shape and torch.allclose(got, expect, rtol=1e-8, atol=1e-10)


FUNCS['outer_product_oracle'] = outer_product_oracle


# ---- C07 run-time oracle pieces
class ApproxFloat(float):
    def __eq__(self, o):
        try:
            o = float(o)
        except (TypeError, ValueError):
            return NotImplemented
        return abs(float(self) - o) <= 1e-9 * max(1.0, abs(float(self)), abs(o))

    def __ne__(self, o):
        return not self.__eq__(o)

    def __hash__(self):
        return hash(float(self))


def awaited(x):
    import torch
    if isinstance(x, (torch._C.Future, torch.futures.Future)):
        return x.wait()
    return x


def clip_sum(p, i):
    """sum over the first i layers in visiting order (reversed registration order) of <V, D> * lr^2."""
    import torch
    layers = list(reversed(list(p._layers.values())))[:i]
    tot = 0.0
    for _, l in layers:
        v = awaited(l._grad)
        w = l.module.get_weight_grad()
        if l.module.has_bias():
            b = l.module.get_bias_grad()
            tot += (v[:, :-1].reshape(w.shape) * w * p.lr ** 2).sum().item()
            tot += (v[:, -1:].reshape(b.shape) * b * p.lr ** 2).sum().item()
        else:
            tot += (v.reshape(w.shape) * w * p.lr ** 2).sum().item()
    return ApproxFloat(tot)


def sqrt_of(x):
    import math
    return math.sqrt(x)


FUNCS.update({'awaited': awaited, 'clip_sum': clip_sum, 'sqrt_of': sqrt_of,
              'nu_rt': None})
FUNCS.pop('nu_rt')
_item_old = FUNCS['item']
FUNCS['item'] = lambda a: ApproxFloat(_item_old(a))


# ---- distributed / assignment view at run time (single process unless a multi-rank harness sets H.world)
H.rank, H.world, H.trace_log = 0, 1, []


def _members(group):
    if group is None:
        return range(H.world)
    if hasattr(group, 'ranks'):
        return group.ranks
    import torch.distributed as dist     # a real ProcessGroup
    return dist.get_process_group_ranks(group)


FUNCS.update({
    'my_rank': lambda: H.rank,
    'world_size': lambda: H.world,
    'in_group': lambda g: True if g is None else (H.rank in _members(g)),
    'rank_in_group': lambda r, g: (0 <= r < H.world) if g is None else (r in _members(g)),
    'group_size': lambda g: H.world if g is None else len(list(_members(g))),
    'group_members': lambda g: frozenset(_members(g)),
    'trace': lambda: list(H.trace_log),
    'is_fresh': lambda x: True,
    'wa_inv_worker': lambda a, l, f: a.inv_worker(l, f),
    'wa_is_grad_worker': lambda a, l: a.is_grad_worker(l),
    'wa_src_grad_worker': lambda a, l: a.src_grad_worker(l),
    'wa_factor_group': lambda a, l, f: a.factor_group(l, f),
    'wa_worker_group': lambda a, l: a.grad_worker_group(l),
    'wa_receiver_group': lambda a, l: a.grad_receiver_group(l),
    'wa_broadcast_gradients': lambda a: a.broadcast_gradients(),
    'wa_broadcast_inverses': lambda a: a.broadcast_inverses(),
    'helper_a_factor': lambda h, v, sh: MatVal(h.get_a_factor(_m(v).reshape(tuple(sh)))),
    'helper_g_factor': lambda h, v, sh: MatVal(h.get_g_factor(_m(v).reshape(tuple(sh)))),
    'combined_grad': lambda h: MatVal(h.get_grad()),
    'bytes_of': lambda t: 0 if t is None else t.nelement() * t.element_size(),
})

try:   # names of the repository's enums / classes that contracts mention
    import torch as _torch
    from kfac.enums import AllreduceMethod, AssignmentStrategy, ComputeMethod, DistributedStrategy
    from kfac.layers.eigen import KFACEigenLayer
    from kfac.layers.inverse import KFACInverseLayer
    FUNCS.update({'AllreduceMethod': AllreduceMethod, 'AssignmentStrategy': AssignmentStrategy,
                  'ComputeMethod': ComputeMethod, 'DistributedStrategy': DistributedStrategy,
                  'KFACEigenLayer': KFACEigenLayer, 'KFACInverseLayer': KFACInverseLayer, 'torch': _torch})
except ImportError:
    pass


def _second_order_consistent(layer, damping):
    """Executable oracle (bounded clauses only): the second-order data a layer holds is what its current
    factors and the given damping produce.  Compared with a float64 recomputation at a loose tolerance."""
    import torch
    A, G = layer.a_factor, layer.g_factor
    if A is None or G is None:
        return True

    def close(x, y):
        return torch.allclose(x.double(), y.double(), rtol=1e-3, atol=1e-5)
    if hasattr(layer, '_a_inv'):
        if layer.a_inv is None or layer.g_inv is None:
            return False
        ia = torch.linalg.inv(A.double() + damping * torch.eye(A.shape[0], dtype=torch.float64))
        ig = torch.linalg.inv(G.double() + damping * torch.eye(G.shape[0], dtype=torch.float64))
        return close(layer.a_inv, ia) and close(layer.g_inv, ig)
    if layer.qa is None or layer.qg is None:
        return False
    da = torch.clamp(torch.linalg.eigvalsh(A.double()), min=0.0)
    dg = torch.clamp(torch.linalg.eigvalsh(G.double()), min=0.0)
    if layer.prediv_eigenvalues:
        return layer.dgda is not None and close(layer.dgda, 1 / (torch.outer(dg, da) + damping))
    return layer.da is not None and layer.dg is not None and close(layer.da, da) and close(layer.dg, dg)


FUNCS['second_order_consistent'] = _second_order_consistent


def _allsum_rt(v, group):
    """Run-time meaning of allsum(v, group): a real all_reduce of a float64 copy on that group (every member
    evaluates the clause, so the collective is matched); outside torch.distributed: the value itself."""
    import torch
    import torch.distributed as dist
    t = _m(v).detach().clone().double()
    mag = t.abs().clone()
    if dist.is_available() and dist.is_initialized() and (group is None or dist.get_rank() in _members(group)):
        if len(list(_members(group))) > 1:
            H.in_oracle = True
            try:
                dist.all_reduce(t, group=group)
                dist.all_reduce(mag, group=group)
            finally:
                H.in_oracle = False
    out = MatVal(t)
    out.scale = float(mag.max()) if mag.numel() else 0.0
    return out


FUNCS['allsum'] = _allsum_rt
FUNCS['vals'] = lambda ts: [MatVal(t.detach().clone()) for t in ts]


def install_trace_hooks():
    """Record every collective the code under test issues (the run-time counterpart of the ghost trace)."""
    import torch.distributed as dist
    if getattr(dist, '_vp_traced', False):
        return
    dist._vp_traced = True
    kinds = {'all_reduce': 1, 'broadcast': 2, 'barrier': 3, 'all_gather': 4, 'reduce_scatter': 5, 'all_gather_object': 6}
    for name, kind in kinds.items():
        orig = getattr(dist, name, None)
        if orig is None:
            continue

        def wrapped(*a, __orig=orig, __kind=kind, __name=name, **k):
            if not getattr(H, 'in_oracle', False):
                t = a[0] if a and hasattr(a[0], 'nelement') else None
                H.trace_log.append((__kind, k.get('group'), k.get('src', -1), t.nelement() if t is not None else 0,
                                    t.dtype if t is not None else None))
            return __orig(*a, **k)
        setattr(dist, name, wrapped)


def _bucketed_requests_ok(tdc):
    """Executable oracle of C08 (bounded clauses only): every request recorded by the generator resolved, after
    the flush, to what an unbucketed reduction of that tensor over the requested group gives (value, shape, dtype)."""
    import torch
    import torch.distributed as dist
    from kfac.distributed import get_triu, fill_triu
    for (t, average, group, symmetric, fut) in getattr(tdc, '_vp_requests', []):
        got = fut.wait() if not isinstance(fut, torch.Tensor) else fut
        size = len(list(_members(group)))
        x = get_triu(t) if symmetric else t
        s = _m(_allsum_rt(x, group))
        if average:
            s = s / size
        if symmetric:
            s = fill_triu(tuple(t.shape), s)
        if tuple(got.shape) != tuple(t.shape) or got.dtype != t.dtype:
            H.last_detail = f'request of shape {tuple(t.shape)} {t.dtype} resolved to {tuple(got.shape)} {got.dtype}'
            return False
        ref = MatVal(s.to(torch.float64))
        ref.scale = float(_allsum_rt(MatVal(x.abs()), group).t.max()) * (1.0 / size if average else 1.0) if x.numel() else 0.0
        if MatVal(got) != ref:
            H.last_detail = f'request (average={average}, symmetric={symmetric}, group of {size}) resolved to a different value'
            return False
    return True


FUNCS['bucketed_requests_ok'] = _bucketed_requests_ok


def _triu_rt(v, sh):
    import torch
    t = _m(v).reshape(tuple(sh))
    i = torch.triu_indices(sh[0], sh[1])
    return MatVal(t[i[0], i[1]])


def _filltriu_rt(sh, x, e=None):
    import torch
    n = sh[0]
    out = torch.zeros(tuple(sh), dtype=_m(x).dtype)
    i = torch.triu_indices(sh[0], sh[1])
    out[i[0], i[1]] = _m(x)
    if sh[0] == sh[1]:
        out[i[1], i[0]] = _m(x)          # mirror by moving elements (no arithmetic)
    return MatVal(out)


FUNCS.update({'triu': _triu_rt, 'filltriu': _filltriu_rt, 'uninit': lambda sid: None,
              'tri_numel': lambda r, c: len(__import__('torch').triu_indices(r, c)[0])})


# ---- C17: reference least-loaded greedy placement, written from the property statement
def _greedy_reference(work, groups, world, colocate):
    loads = [0.0] * world
    out = {l: {} for l in work}
    total = {l: sum(fs.values()) for l, fs in work.items()}
    order = sorted(work, key=lambda l: -total[l])              # decreasing total cost, ties in input order
    for l in order:
        gl = [sum(loads[r] for r in g) for g in groups]
        g = groups[gl.index(min(gl))]                          # currently least-loaded group (first on ties)
        if colocate:
            w = min(g, key=lambda r: (loads[r], g.index(r)))
            loads[w] += total[l]
            for f in work[l]:
                out[l][f] = w
        else:
            for f, c in sorted(work[l].items(), key=lambda kv: (kv[1], kv[0]), reverse=True):
                w = min(g, key=lambda r: (loads[r], g.index(r)))
                loads[w] += c
                out[l][f] = w
    return out


def _greedy_balanced(work, groups, world, colocate, result):
    """Worker loads within the group(s) that received work never differ by more than the largest single item
    placed (a layer when co-located, a factor otherwise); group loads likewise by the largest layer."""
    loads = [0.0] * world
    for l, fs in result.items():
        for f, r in fs.items():
            loads[r] += work[l][f]
    items = [sum(fs.values()) for fs in work.values()] if colocate else [c for fs in work.values() for c in fs.values()]
    big = max(items, default=0.0)
    layer_big = max([sum(fs.values()) for fs in work.values()], default=0.0)
    eps = 1e-9 * (1 + sum(abs(x) for x in loads))
    disjoint = len({r for g in groups for r in g}) == sum(len(g) for g in groups)
    if not disjoint:
        return True           # the balance statement is about disjoint worker groups
    for g in groups:
        gl = [loads[r] for r in g]
        if max(gl) - min(gl) > big + eps:
            H.last_detail = f'group {g}: worker loads {gl} differ by more than the largest item {big}'
            return False
    tot = [sum(loads[r] for r in g) for g in groups]
    if max(tot) - min(tot) > layer_big + eps:
        H.last_detail = f'group loads {tot} differ by more than the largest layer {layer_big}'
        return False
    return True


def _greedy_again(work, groups, world, colocate):
    import copy
    from kfac.assignment import KAISAAssignment
    return KAISAAssignment.greedy_assignment(copy.deepcopy(work), copy.deepcopy(groups), world, colocate)


FUNCS.update({'greedy_reference': _greedy_reference, 'greedy_balanced': _greedy_balanced, 'greedy_again': _greedy_again})


# ---- C16: reference of "exactly the eligible layers", written from the property statement
def _leaves(root):
    """(first qualified name, module) of every leaf module instance, each instance once, in traversal order."""
    seen, out = set(), []

    def walk(prefix, m):
        if id(m) in seen:
            return
        seen.add(id(m))
        kids = list(m._modules.items())
        kids = [(n, c) for n, c in kids if c is not None]
        if not kids:
            out.append((prefix, m))
        for n, c in kids:
            walk(f'{prefix}.{n}' if prefix else n, c)
    walk('', root)
    return out


def _eligible(root, skip):
    import re
    import torch
    res = set()
    for name, m in _leaves(root):
        if not isinstance(m, (torch.nn.Linear, torch.nn.Conv2d)):
            continue
        if not all(p.requires_grad for p in m.parameters()):
            continue
        if any(re.search(p, name) for p in skip) or any(re.search(p, type(m).__name__) for p in skip):
            continue
        res.add(m)
    return res


def _helper_matches(module, helper):
    import torch
    from kfac.layers.modules import LinearModuleHelper, Conv2dModuleHelper
    if isinstance(module, torch.nn.Linear):
        return type(helper) is LinearModuleHelper and helper.module is module
    if isinstance(module, torch.nn.Conv2d):
        return type(helper) is Conv2dModuleHelper and helper.module is module
    return helper is None


def _fingerprint(model):
    out = []
    for n, m in model.named_modules():
        out.append((n, type(m).__name__, m.training, len(m._forward_hooks), len(m._forward_pre_hooks), len(m._backward_hooks),
                    tuple(sorted(k for k in vars(m) if not k.startswith('_')))))
    for n, p in model.named_parameters():
        out.append((n, tuple(p.shape), p.requires_grad, float(p.detach().double().sum())))
    return out


FUNCS.update({
    're_search_any': lambda q, ps: any(__import__('re').search(p, q) is not None for p in ps),
    'all_params_require_grad': lambda m: all(p.requires_grad for p in m.parameters()),
    'leaf_modules_reference': _leaves,
    'eligible_modules_reference': _eligible,
    'first_qualified_name': lambda root, m: next(n for n, x in _leaves(root) if x is m),
    'helper_matches_reference': _helper_matches,
    'model_fingerprint': _fingerprint,
})


# ---- C12: whole-topology reference for GPTNeoXAssignment, written from the property statement
class _FakeGroup:
    def __init__(self, ranks):
        self.ranks = tuple(ranks)

    def __repr__(self):
        return f'group{self.ranks}'


def _neox_world(work, topology):
    """Construct the REAL GPTNeoXAssignment on every rank of the topology (new_group recorded per rank)."""
    import copy
    import torch.distributed as dist
    from kfac.gpt_neox.assignment import GPTNeoXAssignment
    W = topology.world_size()
    dp_lists, mp_lists = topology.get_axis_comm_lists('data'), topology.get_axis_comm_lists('model')
    dp_groups = {tuple(l): _FakeGroup(l) for l in dp_lists}
    mp_groups = {tuple(l): _FakeGroup(l) for l in mp_lists}
    out, calls = {}, {}
    orig = dist.new_group
    try:
        for r in range(W):
            log = []
            dist.new_group = lambda ranks=None, *a, __log=log, **k: (__log.append(tuple(ranks)), _FakeGroup(ranks))[1]
            dpg = next(g for l, g in dp_groups.items() if r in l)
            mpg = next(g for l, g in mp_groups.items() if r in l)
            out[r] = GPTNeoXAssignment(copy.deepcopy(work), local_rank=r, topology=topology,
                                       data_parallel_group=dpg, model_parallel_group=mpg)
            calls[r] = log
    finally:
        dist.new_group = orig
    return out, calls, dp_lists, mp_lists


def _neox_world_consistent(self, work, topology):
    asg, calls, dp_lists, mp_lists = _neox_world(work, topology)
    W = topology.world_size()
    stage = {r: topology.get_coord(r).pipe for r in range(W)}

    def grp(r, lists):
        return next(l for l in lists if r in l)
    # process groups: every rank issues the same sequence of new_group calls (torch requires it)
    if any(calls[r] != calls[0] for r in range(W)):
        r = next(r for r in range(W) if calls[r] != calls[0])
        H.last_detail = f'new_group sequences differ: rank 0 {calls[0]} vs rank {r} {calls[r]}'
        return False
    for r in range(W):
        a = asg[r]
        peers = [q for q in range(W) if stage[q] == stage[r]]
        loads = {q: 0.0 for q in peers}
        # least-loaded greedy over the stage's ranks, layers by decreasing (cost, name)
        for layer, cost in sorted(((l, sum(f.values())) for l, f in work.items()), key=lambda t: (t[1], t[0]), reverse=True):
            w = min(peers, key=lambda q: (loads[q], peers.index(q)))
            loads[w] += cost
            for f in work[layer]:
                if a.inv_worker(layer, f) != w:
                    H.last_detail = f'rank {r}: inv_worker({layer},{f}) = {a.inv_worker(layer, f)}, least-loaded greedy gives {w}'
                    return False
        for layer in work:
            facs = list(work[layer])
            if not facs:
                continue
            iw = a.inv_worker(layer, facs[0])
            # all ranks of the stage agree, the worker is one of the stage's ranks
            if any(asg[q].inv_worker(layer, f) != iw for q in peers for f in facs) or iw not in peers:
                H.last_detail = f'stage of rank {r} disagrees on the inverse worker of {layer}'
                return False
            fw = a.factor_worker(layer, facs[0])
            if fw not in grp(r, mp_lists) or fw not in grp(iw, dp_lists):
                H.last_detail = f'rank {r}: factor worker {fw} of {layer} not in own model-parallel group and the inverse worker\'s data-parallel group'
                return False
            src = a.src_grad_worker(layer)
            if src not in grp(r, dp_lists) or topology.get_coord(src).model != topology.get_coord(r).model:
                H.last_detail = f'rank {r}: gradient source {src} of {layer} is not in its data-parallel group with the same shard'
                return False
            if a.is_grad_worker(layer) != (r in grp(iw, mp_lists)):
                H.last_detail = f'rank {r}: is_grad_worker({layer}) = {a.is_grad_worker(layer)} but model-parallel peers of the inverse worker are {grp(iw, mp_lists)}'
                return False
        if a.broadcast_gradients() is not True or a.broadcast_inverses() is not False:
            return False
    return True


FUNCS['neox_world_consistent'] = _neox_world_consistent


def _held_bytes(p):
    """Bytes of the K-FAC tensors every layer of the preconditioner holds right now (C13 reference)."""
    def b(t):
        import torch
        if t is None:
            return 0
        if not isinstance(t, torch.Tensor):
            t = t.wait()
        return t.nelement() * t.element_size()
    out = {'a_factors': 0, 'g_factors': 0, 'a_batch': 0, 'g_batch': 0, 'a_inverses': 0, 'g_inverses': 0}
    for _, l in p._layers.values():
        out['a_factors'] += b(l._a_factor)
        out['g_factors'] += b(l._g_factor)
        out['a_batch'] += b(l._a_batch)
        out['g_batch'] += b(l._g_batch)
        if hasattr(l, '_a_inv'):
            out['a_inverses'] += b(l._a_inv)
            out['g_inverses'] += b(l._g_inv)
        else:
            out['a_inverses'] += b(l._qa) + b(l._da)
            out['g_inverses'] += b(l._qg) + b(l._dg) + b(l._dgda)
    if not p._layers:
        out = {}
    out['total'] = sum(out.values())
    return out


FUNCS['held_bytes_reference'] = _held_bytes


# ---- C13 / C06 / C16: what KFACPreconditioner.__init__ must configure, written from the property statements
def _ws():
    import torch.distributed as dist
    return dist.get_world_size() if dist.is_available() and dist.is_initialized() else 1


def _ctor_must_reject(kw):
    from kfac.enums import DistributedStrategy, ComputeMethod
    if kw.get('allreduce_bucket_cap_mb', 25.0) < 0:
        return True
    cm = kw.get('compute_method', ComputeMethod.EIGEN)
    cm = ComputeMethod[cm.upper()] if isinstance(cm, str) else cm
    f = kw.get('grad_worker_fraction', DistributedStrategy.COMM_OPT)
    W = _ws()
    if isinstance(f, DistributedStrategy):
        # a named strategy is a fraction too (HYBRID-OPT = 1/2 needs an even world)
        f = {DistributedStrategy.COMM_OPT: 1.0, DistributedStrategy.HYBRID_OPT: 0.5, DistributedStrategy.MEM_OPT: 1.0 / W}[f]
        g = max(1.0, W * f)
        return abs(g - round(g)) > 1e-6 or W % round(g) != 0
    if not isinstance(f, DistributedStrategy):
        if not (0 <= f <= 1):
            return True
        if f == 0:
            f = 1.0 / W
        # every k / world_size with k dividing world_size is accepted (C06); a fraction is rejected when the worker
        # count max(1, world_size * fraction) is not an integer or does not divide the world into equal groups
        g = max(1.0, W * f)
        if abs(g - round(g)) > 1e-6 or W % max(1, round(W * f)) != 0 or W % round(g) != 0:
            return True
    return False


def _config_reference(p, kw):
    from kfac.enums import DistributedStrategy, ComputeMethod, AllreduceMethod
    from kfac.layers.eigen import KFACEigenLayer
    from kfac.layers.inverse import KFACInverseLayer
    W = _ws()
    f = kw.get('grad_worker_fraction', DistributedStrategy.COMM_OPT)
    if isinstance(f, DistributedStrategy):
        strat = f
        frac = {DistributedStrategy.COMM_OPT: 1.0, DistributedStrategy.HYBRID_OPT: 0.5, DistributedStrategy.MEM_OPT: 1.0 / W}[f]
    else:
        frac = 1.0 / W if f == 0 else float(f)
        strat = (DistributedStrategy.COMM_OPT if frac == 1 else
                 DistributedStrategy.MEM_OPT if frac <= 1 / W else DistributedStrategy.HYBRID_OPT)

    def bad(msg):
        H.last_detail = msg
        return False
    if abs(p.grad_worker_fraction - frac) > 1e-12 or p.distributed_strategy != strat:
        return bad(f'fraction/strategy {p.grad_worker_fraction}/{p.distributed_strategy} for request {f} in a world of {W}: expected {frac}/{strat}')
    a = p._assignment
    workers = max(1, round(W * frac))
    if a.broadcast_gradients() != (workers < W) or a.broadcast_inverses() != (workers > 1):
        return bad(f'broadcast flags ({a.broadcast_gradients()}, {a.broadcast_inverses()}) do not match {workers} gradient workers of {W}')
    cap = kw.get('allreduce_bucket_cap_mb', 25.0)
    want = AllreduceMethod.ALLREDUCE_BUCKETED if cap > 0 else AllreduceMethod.ALLREDUCE
    cm = kw.get('compute_method', ComputeMethod.EIGEN)
    cm = ComputeMethod[cm.upper()] if isinstance(cm, str) else cm
    lt = KFACEigenLayer if cm == ComputeMethod.EIGEN else KFACInverseLayer
    elig = _eligible(kw['model'], kw.get('skip_layers') or [])
    if set(p._layers) != elig:
        return bad('registered layers are not exactly the eligible modules')
    for m, (name, l) in p._layers.items():
        if type(l) is not lt or l.allreduce_method != want or l.tdc is not p._tdc or l.symmetry_aware != kw.get('symmetry_aware', False):
            return bad(f'layer {name} is not configured as requested')
        if lt is KFACEigenLayer and l.prediv_eigenvalues != kw.get('compute_eigenvalue_outer_product', True):
            return bad(f'layer {name}: prediv_eigenvalues does not follow compute_eigenvalue_outer_product')
        # every factor has an inverse worker inside the layer's gradient-worker group (C06 on the real object)
        for fct in ('A', 'G'):
            if not (0 <= a.inv_worker(name, fct) < W):
                return bad('inverse worker out of range')
    if p._tdc._bucket_cap_mb != cap:
        return bad('bucket capacity not passed on')
    colo = kw.get('colocate_factors', True) or strat == DistributedStrategy.MEM_OPT
    if p.colocate_factors != colo:
        return bad('colocate_factors must be forced under MEM-OPT')
    return True


FUNCS['kfac_config_reference'] = _config_reference
FUNCS['kfac_ctor_must_reject'] = _ctor_must_reject


def _inconsistent_outer_product(kw):
    from kfac.enums import ComputeMethod
    cm = kw.get('compute_method', ComputeMethod.EIGEN)
    cm = ComputeMethod[cm.upper()] if isinstance(cm, str) else cm
    return cm == ComputeMethod.EIGEN and kw.get('compute_eigenvalue_outer_product', True) and not kw.get('colocate_factors', True)


FUNCS['kfac_inconsistent_outer_product'] = _inconsistent_outer_product
