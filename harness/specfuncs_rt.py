"""CPython implementations of the spec-only functions used in contracts (run-time checking)."""
from __future__ import annotations


class HarnessState:
    calls = 0
    clock_values: list = []
    clock_reads = 0
    pure_impl = {}      # id(func) -> pure implementation (no counting)


H = HarnessState


def key_at(d, j):
    return list(d)[j]


def same_dict(a, b):
    return list(a.items()) == list(b.items()) and all(type(x) is type(y) for x, y in zip(a.values(), b.values()))


def call(func, args, kwargs):
    impl = H.pure_impl[id(func)]
    return impl(*args, **kwargs)


def call_raises(func, args, kwargs):
    impl = H.pure_impl[id(func)]
    try:
        impl(*args, **kwargs)
        return False
    except Exception:
        return True


def calls_made():
    return H.calls


def clock_reads():
    return H.clock_reads


def clock_at(i):
    while len(H.clock_values) <= i:
        H.clock_values.append(1000.0 + 0.37 * len(H.clock_values) ** 1.5)
    return H.clock_values[i]


def fake_time():
    v = clock_at(H.clock_reads)
    H.clock_reads += 1
    return v


FUNCS = {'key_at': key_at, 'same_dict': same_dict, 'call': call, 'call_raises': call_raises,
         'calls_made': calls_made, 'clock_reads': clock_reads, 'clock_at': clock_at}
