"""CPython implementations of the spec-only functions used in contracts (run-time checking)."""
from __future__ import annotations


class HarnessState:
    calls = 0
    clock_values: list = []
    clock_reads = 0
    pure_impl = {}      # id(func) -> pure implementation (no counting)


H = HarnessState


def key_at(d, j):
    return list(d)[j]


def same_dict(a, b):
    return list(a.items()) == list(b.items()) and all(type(x) is type(y) for x, y in zip(a.values(), b.values()))


def call(func, args, kwargs):
    impl = H.pure_impl[id(func)]
    return impl(*args, **kwargs)


def call_raises(func, args, kwargs):
    impl = H.pure_impl[id(func)]
    try:
        impl(*args, **kwargs)
        return False
    except Exception:
        return True


def calls_made():
    return H.calls


def clock_reads():
    return H.clock_reads


def clock_at(i):
    while len(H.clock_values) <= i:
        H.clock_values.append(1000.0 + 0.37 * len(H.clock_values) ** 1.5)
    return H.clock_values[i]


def fake_time():
    v = clock_at(H.clock_reads)
    H.clock_reads += 1
    return v


def n_groups(fam):
    return len(fam)


def group(fam, i):
    members = sorted(fam, key=lambda S: (min(S) if S else -1))
    return members[i]


def rangeset(a, b, s):
    return frozenset(range(a, b, s))


def pt(a, s, k):
    return a + k * s


FUNCS = {'n_groups': n_groups, 'group': group, 'rangeset': rangeset, 'pt': pt,
         'key_at': key_at, 'same_dict': same_dict, 'call': call, 'call_raises': call_raises,
         'calls_made': calls_made, 'clock_reads': clock_reads, 'clock_at': clock_at}


# ---- C06: the property statement as an executable oracle over every rank of the world
def kaisa_world_consistent(self, work, W, fraction, colocate):
    from kfac.assignment import KAISAAssignment
    calls = {}

    def mk(rank):
        log = []

        def gf(ranks):
            log.append(tuple(sorted(ranks)))
            return ('group', tuple(sorted(ranks)))
        a = KAISAAssignment(work, local_rank=rank, world_size=W, grad_worker_fraction=fraction,
                            group_func=gf, colocate_factors=colocate)
        calls[rank] = log
        return a
    ranks = range(W) if W <= 24 else sorted({0, 1, W - 1, W // 2, self.local_rank, (self.local_rank * 7 + 3) % W})
    world = {r: mk(r) for r in ranks}
    g = self.grad_workers
    p = W // g
    cols = KAISAAssignment.partition_grad_workers(W, g)
    rows = KAISAAssignment.partition_grad_receivers(W, g)
    for fam, size, n in ((cols, g, p), (rows, p, g)):
        assert len(fam) == n and all(len(S) == size for S in fam), 'groups are not equal parts'
        assert sorted(x for S in fam for x in S) == list(range(W)), 'groups do not partition the world'
    for r, a in world.items():
        assert a._inv_assignments == self._inv_assignments, f'rank {r} derives different inverse workers'
        assert calls[r] == calls[self.local_rank] if self.local_rank in calls else True, 'group creation order differs'
        assert a.broadcast_gradients() == (g < W) and a.broadcast_inverses() == (g > 1), 'broadcast flags'
        for layer in work:
            wg = a._grad_worker_groups[layer].ranks
            rg = a._grad_receiver_groups[layer].ranks
            assert wg in cols and rg in rows and r in rg, 'groups are not a column / the own row'
            assert all(a.inv_worker(layer, f) in wg for f in work[layer]), 'inverse worker outside the worker group'
            src = a.src_grad_worker(layer)
            assert src in wg and src in rg, f'rank {r}: source {src} not a grad worker inside own receiver group'
            assert len(wg & rg) == 1, 'more than one candidate source'
            assert a.is_grad_worker(layer) == (r in wg), 'is_grad_worker'
            if r in wg:
                assert src == r, 'grad worker must be its own source'
    return True


def _wrap_assert(f):
    def g(*a, **k):
        try:
            return f(*a, **k)
        except AssertionError as ex:
            g.last = str(ex)
            return False
    return g


FUNCS['kaisa_world_consistent'] = _wrap_assert(kaisa_world_consistent)
