"""Bounded concrete falsifier: run the REAL function on generated inputs under its contract.

stdin: JSON request {property, obligation, function, contract, model, seed, budget}
stdout: one JSON line {reproduced: true|false, conclusive: bool, clause, input, detail, tried}
Runs under /venv/bin/python with PYTHONPATH=/repo (imports kfac from the working tree).
"""
from __future__ import annotations

import json
import os
import random
import sys
import traceback
import warnings

HERE = os.path.dirname(os.path.abspath(__file__))
sys.path.insert(0, os.path.dirname(HERE))
warnings.filterwarnings('ignore')

from harness import rtcontract, gens   # noqa: E402
try:
    from harness import specfuncs_rt as _rt
    _rt.install_trace_hooks()
except Exception:      # noqa
    pass


def _rank_main(rank, world, build, cdict):
    from harness import specfuncs_rt
    specfuncs_rt.H.rank, specfuncs_rt.H.world = rank, world
    rc = rtcontract.RuntimeContract(cdict, cdict.get('spec_defs', {}))
    case = build(rank, world)
    if case is None:
        return ('skip', '', '', None)
    if not rc.admissible(case.params):
        return ('inadmissible', rc.why, '', None)
    try:
        rc.check_call(case.fn, case.params, case.args, case.kwargs)
    except rtcontract.ContractViolation as v:
        return ('violation', v.clause, v.detail, case.describe())
    return ('ok', '', '', None)


def run_multi(case, cdict):
    from harness.mprun import run_ranks
    out = run_ranks(case.world, _rank_main, (case.build, cdict), timeout=90)
    viol = [(r, v) for r, (st_, v) in out.items() if st_ == 'ok' and v[0] == 'violation']
    if any(st_ == 'ok' and v[0] == 'inadmissible' for st_, v in out.values()):
        why = next(v[1] for st_, v in out.values() if st_ == 'ok' and v[0] == 'inadmissible')
        return {'status': 'inadmissible', 'why': why}
    if viol:
        r, v = viol[0]
        inp = dict(v[3] or {})
        inp['world_size'], inp['rank'], inp['scenario'] = case.world, r, case.note
        return {'status': 'violation', 'clause': v[1], 'detail': f'[rank {r} of {case.world}] ' + v[2], 'input': inp}
    bad = [(r, st_, v) for r, (st_, v) in out.items() if st_ != 'ok']
    if bad:
        return {'status': 'harness', 'detail': '; '.join(f'rank {r}: {st_} {str(v)[:400]}' for r, st_, v in bad)}
    return {'status': 'ok'}


def run(req):
    key = req['function']
    c = req['contract']
    seed = int(req.get('seed', 0))
    budget = int(req.get('budget', 400))
    rc = rtcontract.RuntimeContract(c, c.get('spec_defs', {}))
    rng = random.Random(seed * 7919 + hash(key) % 1000)
    gen = gens.generator_for(key, c)
    if gen is None:
        return {'reproduced': None, 'conclusive': False, 'detail': f'no input generator for {key}', 'tried': 0}
    tried = admissible = 0
    distinct, samples = set(), []

    def note_case(desc):
        try:
            h = json.dumps(desc, sort_keys=True, default=repr)
        except Exception:      # noqa
            h = repr(desc)
        if h not in distinct and len(samples) < 3:
            samples.append(desc)
        distinct.add(h)
    want = req.get('obligation', '').split('/', 1)[-1]
    first_other = None
    last_why = ''
    import time as _time
    deadline = _time.time() + float(req.get('time_budget_s', 150))
    for i in range(budget * 5):
        if admissible >= budget:
            break
        if _time.time() > deadline and admissible >= 5:
            break       # the stated bound is what was actually run (reported as `admissible`)
        tried += 1
        try:
            case = gen(rng, req.get('model'))
        except gens.Skip:
            continue
        if isinstance(case, gens.MultiRankCase):
            res = run_multi(case, c)
            if res['status'] == 'inadmissible':
                last_why = res['why']
                continue
            admissible += 1
            note_case({'scenario': case.note})
            if res['status'] == 'violation':
                return {'reproduced': True, 'conclusive': True, 'clause': res['clause'], 'detail': res['detail'][:800],
                        'input': res['input'], 'tried': tried, 'admissible': admissible}
            if res['status'] == 'harness':
                return {'reproduced': None, 'conclusive': False, 'detail': 'harness error: ' + res['detail'][:1500], 'tried': tried}
            continue
        if not rc.admissible(case.params):
            last_why = rc.why
            continue
        admissible += 1
        note_case(case.describe())
        try:
            rc.check_call(case.fn, case.params, case.args, case.kwargs)
        except rtcontract.ContractViolation as v:
            rec = {'reproduced': True, 'conclusive': True, 'clause': v.clause, 'detail': v.detail[:800],
                   'input': case.describe(), 'tried': tried, 'admissible': admissible}
            return rec
        except Exception as ex:   # harness problem, not a verdict
            return {'reproduced': None, 'conclusive': False,
                    'detail': 'harness error: ' + ''.join(traceback.format_exception_only(type(ex), ex))[:500]
                    + traceback.format_exc()[-1500:],
                    'tried': tried}
    return {'reproduced': False, 'conclusive': False, 'tried': tried, 'admissible': admissible,
            'distinct': len(distinct), 'samples': samples,
            'detail': f'no failing input among {admissible} admissible inputs' + (f' (last rejection: {last_why})' if not admissible else '')}


if __name__ == '__main__':
    req = json.loads(sys.stdin.read())
    try:
        out = run(req)
    except Exception as ex:
        out = {'reproduced': None, 'conclusive': False, 'detail': 'falsifier crashed: ' + traceback.format_exc()[-2000:]}
    print(json.dumps(out, default=repr))
