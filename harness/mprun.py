"""Run a function on N real ranks (fork + gloo over loopback, FileStore rendezvous) and collect the results.

Used by the falsifier / replayer for contracts whose failing inputs need more than one process
(sub-groups, bucketed communication).  Everything lives in a private temporary directory that is removed.
"""
from __future__ import annotations

import multiprocessing
import os
import shutil
import tempfile
import traceback


def _worker(rank, world, store_path, fn, args, q):
    import torch.distributed as dist
    try:
        store = dist.FileStore(store_path, world)
        dist.init_process_group('gloo', store=store, rank=rank, world_size=world)
        out = fn(rank, world, *args)
        q.put((rank, 'ok', out))
        try:
            dist.barrier()
        except Exception:      # noqa
            pass
    except BaseException as ex:     # noqa
        q.put((rank, 'error', ''.join(traceback.format_exception_only(type(ex), ex))[:600] + traceback.format_exc()[-1200:]))


def run_ranks(world, fn, args=(), timeout=60):
    """Returns {rank: ('ok', value) | ('error', text) | ('stalled', '')}."""
    tmp = tempfile.mkdtemp(prefix='vprun.')
    ctx = multiprocessing.get_context('fork')
    q = ctx.Queue()
    procs = []
    try:
        for r in range(world):
            p = ctx.Process(target=_worker, args=(r, world, os.path.join(tmp, 'store'), fn, args, q))
            p.daemon = True
            p.start()
            procs.append(p)
        out = {}
        import queue as _q
        import time
        deadline = time.time() + timeout
        while len(out) < world and time.time() < deadline:
            try:
                r, status, val = q.get(timeout=0.2)
                out[r] = (status, val)
            except _q.Empty:
                if all(not p.is_alive() for p in procs) and q.empty():
                    break
        for r in range(world):
            out.setdefault(r, ('stalled', ''))
        return out
    finally:
        for p in procs:
            p.join(0.5)
            if p.is_alive():
                p.terminate()
        shutil.rmtree(tmp, ignore_errors=True)
